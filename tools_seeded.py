"""Ingest a sub-agent's mutation after confirming it myself in its scratch worktree.

usage: tools_seeded.py ingest <worktree> <k> <seeded-id> <property> [--tests quick|full]

Confirms: patch applies; demo fails with the patch and passes without; the
existing test suite (unedited) has no new failures with the patch. Then copies
patch.diff, demo.py, notes.md into /verif/seeded/<id>/ with meta.json.
"""
import json
import os
import re
import shutil
import subprocess
import sys

PY = '/venv/bin/python'
KNOWN_FAIL = {'test_time_filter_variation0', 'test_time_filter_variation1'}


def sh(cmd, cwd, timeout=3000, env=None):
  e = dict(os.environ)
  e.pop('PYTHONPATH', None)
  if env:
    e.update(env)
  p = subprocess.run(cmd, cwd=cwd, shell=True, capture_output=True, text=True,
                     timeout=timeout, env=e)
  return p.returncode, p.stdout + p.stderr


def main():
  _, cmd, wt, k, sid, prop = sys.argv[:6]
  tests = 'full'
  if '--tests' in sys.argv:
    tests = sys.argv[sys.argv.index('--tests') + 1]
  out = os.path.join(wt, '_out', k)
  patch = os.path.join(out, 'patch.diff')
  demo = os.path.join(out, 'demo.py')
  rc, o = sh('git status --porcelain -- dinosaur', wt)
  assert o.strip() == '', f'worktree not clean: {o}'
  meta = {'property': prop, 'source': f'independent sub-agent, worktree {wt}, mutation {k}',
          'ran': []}
  # demo passes on original
  rc0, o0 = sh(f'{PY} {demo}', wt, 1200)
  meta['ran'].append({'cmd': f'cd <wt> && python _out/{k}/demo.py (original)', 'exit': rc0})
  rc, o = sh(f'git apply {patch}', wt)
  assert rc == 0, f'patch does not apply: {o}'
  try:
    rc1, o1 = sh(f'{PY} {demo}', wt, 1200)
    meta['ran'].append({'cmd': f'cd <wt> && python _out/{k}/demo.py (patched)', 'exit': rc1,
                        'tail': o1[-600:]})
    rc, files = sh('git diff --name-only', wt)
    meta['files_changed'] = files.split()
    if tests == 'full':
      tcmd = (f'{PY} -m pytest -q -p no:cacheprovider --timeout=900 '
              '--continue-on-collection-errors -x --deselect '
              'dinosaur/filtering_test.py::FilteringTest::test_time_filter_variation0 --deselect '
              'dinosaur/filtering_test.py::FilteringTest::test_time_filter_variation1 '
              '--ignore=dinosaur/pipelines')
    else:
      mods = sorted({re.sub(r'\.py$', '_test.py', f) for f in files.split()})
      mods = [m for m in mods if os.path.exists(os.path.join(wt, m))]
      extra = ['dinosaur/time_integration_test.py', 'dinosaur/primitive_equations_integration_test.py']
      tcmd = f"{PY} -m pytest -q -p no:cacheprovider --timeout=900 " + ' '.join(sorted(set(mods + extra)))
    rct, ot = sh(tcmd, wt, 3000)
    summary = [l for l in ot.splitlines() if re.search(r'\d+ (passed|failed)', l)]
    meta['ran'].append({'cmd': tcmd, 'exit': rct, 'summary': summary[-1:] })
    meta['tests_pass_with_patch'] = (rct == 0)
  finally:
    sh('git checkout -- dinosaur', wt)
  meta['demo_passes_on_original'] = rc0 == 0
  meta['demo_fails_with_patch'] = rc1 != 0
  ok = meta['demo_passes_on_original'] and meta['demo_fails_with_patch'] and meta['tests_pass_with_patch']
  meta['confirmed'] = ok
  notes = os.path.join(out, 'notes.md')
  if os.path.exists(notes):
    txt = open(notes).read()
    meta['needs_to_manifest'] = txt[:1500]
  print(json.dumps({k_: v for k_, v in meta.items() if k_ != 'needs_to_manifest'}, indent=1))
  if ok:
    dst = os.path.join('/verif/seeded', sid)
    os.makedirs(dst, exist_ok=True)
    shutil.copy(patch, os.path.join(dst, 'patch.diff'))
    shutil.copy(demo, os.path.join(dst, 'demo.py'))
    if os.path.exists(notes):
      shutil.copy(notes, os.path.join(dst, 'notes.md'))
    with open(os.path.join(dst, 'meta.json'), 'w') as f:
      json.dump(meta, f, indent=1)
    print('INGESTED', dst)
  else:
    print('REJECTED', sid)


if __name__ == '__main__':
  main()
