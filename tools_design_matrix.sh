#!/bin/sh
# Re-generates DESIGN.md section 10.3 from the sensitivity-sweep logs kept in /verif/sensitivity/
cd /verif
/venv/bin/python tools_matrix.py sensitivity/*.log > /tmp/_matrix.md
/venv/bin/python - <<'PY'
p='/verif/DESIGN.md'
s=open(p).read()
m=open('/tmp/_matrix.md').read()
rows=[l for l in m.splitlines() if l.startswith('| C')]
caught=sum(1 for l in rows if '| CAUGHT |' in l)
head='''### 10.3 Which checks catch which changes (sensitivity results)

Every change below compiles and passes the repository's own test suite
(the sub-agent changes were confirmed by me in their scratch worktrees: demo
fails with the patch, passes without, unedited suite green - see
`seeded/<id>/meta.json`). Each was applied to a scratch copy of `/repo/dinosaur`
(never to `/repo`) and the property's **quick** check was run with `--repo`.
"s" is wall time on a loaded machine including shrinking and replay
verification. Result: **%d of %d caught** by the check of the property they
break. Where a later strengthening was needed to catch a change it is noted in
10.3.1.

''' % (caught, len(rows))
block='<!-- MATRIX-BEGIN -->\n'+head+m+'\n<!-- MATRIX-END -->'
if '@@MATRIX@@' in s:
    s=s.replace('@@MATRIX@@', block)
else:
    i=s.index('<!-- MATRIX-BEGIN -->'); j=s.index('<!-- MATRIX-END -->')+len('<!-- MATRIX-END -->')
    s=s[:i]+block+s[j:]
open(p,'w').write(s)
print(caught, len(rows))
PY
