"""Builds the detection matrix (DESIGN 10.3) from sensitivity-sweep logs.
usage: tools_matrix.py <log> [<log> ...]   (prints markdown)"""
import json, os, re, sys
sys.path.insert(0, os.path.dirname(os.path.abspath(__file__)))
from mutants import defs

rows = {}
for path in sys.argv[1:]:
  for line in open(path):
    m = re.match(r'^(C\d+) (\S+): (\S+) in (\d+)s (\[.*\])', line.strip())
    if m:
      prop, name, verdict, secs, oracles = m.groups()
      rows[(prop, name)] = (verdict, int(secs), ', '.join(eval(oracles)))
def first(t):
  ls = [l for l in t.strip().splitlines() if l.strip()]
  return (ls[0].strip()[:60] if ls else '(removed)').replace('|', '/')
what = {m['name']: f"`{m['file'].split('/')[-1]}`: `{first(m['old'])}` -> `{first(m['new'])}`" for m in defs.M}
seeded = {}
sd = os.path.join(os.path.dirname(os.path.abspath(__file__)), 'seeded')
for name in sorted(os.listdir(sd)):
  meta = os.path.join(sd, name, 'meta.json')
  if os.path.exists(meta):
    j = json.load(open(meta))
    notes = j.get('needs_to_manifest', '')
    first = ''
    for l in notes.splitlines():
      l = l.strip()
      if l and not l.startswith('#'):
        first = l[:160]
        break
    seeded[name] = (', '.join(os.path.basename(f) for f in j.get('files_changed', [])), first)
print('| property | change | kind | verdict | oracles that fired | s |')
print('|---|---|---|---|---|---|')
for (prop, name), (verdict, secs, oracles) in sorted(rows.items()):
  if name in seeded:
    desc = f'seeded `{name}` ({seeded[name][0]})'
    kind = 'sub-agent'
  else:
    desc = f'`{name}`: ' + what.get(name, '')
    kind = 'own mutant'
  print(f'| {prop} | {desc} | {kind} | {verdict} | {oracles} | {secs} |')
