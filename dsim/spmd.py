"""Deterministic SPMD simulator: devices as nodes, collectives as network.

`Simulator.shard_map` is a drop-in for `jax.experimental.shard_map.shard_map`
(installed at the module-attribute seams of dinosaur). A shard_map region is
executed as N communicating device programs:

* the *real* body is traced once to a per-device jaxpr with
  `jax.make_jaxpr(f, axis_env=[(axis, size), ...])`;
* each device interprets that jaxpr as a python generator: ordinary equations
  are evaluated with `primitive.bind` (real XLA, op by op); `axis_index`
  returns the simulated coordinate; `ppermute` / `all_gather` post messages to
  the simulated network and park until the messages this device is entitled to
  for that collective instance have been delivered;
* a seeded scheduler decides, step by step, which runnable device advances and
  which in-flight message is delivered, and injects delay, reordering,
  stalled devices and duplicate deliveries. Every decision goes through a
  `Chooser`, whose recorded list is the replayable schedule.

Invariants checked while running: no message consumed by a different
collective instance (S-ORPHAN), nothing left in flight at completion
(S-ORPHAN), all devices finish once faults stop (S-LIVE / DEADLOCK), replicas
along unused mesh axes bit-identical (S-REPL).
"""
from __future__ import annotations

import contextlib
import itertools
import types

import jax
import jax.numpy as jnp
import numpy as np
from jax import lax as real_lax
from jax.extend import core as jex_core

COLLECTIVES = ('ppermute', 'all_gather', 'axis_index')
UNSUPPORTED_COLLECTIVES = ('psum', 'pmax', 'pmin', 'all_to_all', 'reduce_scatter',
                           'pbroadcast', 'psum2', 'psum_invariant', 'pgather')


class Unsupported(Exception):
  """The simulator met something it does not interpret (harness limit)."""


class SimViolation(Exception):
  def __init__(self, oracle, message):
    super().__init__(message)
    self.oracle = oracle
    self.message = message


# ----------------------------------------------------------------------------
# choices
# ----------------------------------------------------------------------------

class Chooser:
  """Every scheduling / fault decision; records, or replays a recorded list."""

  def __init__(self, rng=None, recorded=None):
    self.rng = rng
    self.recorded = list(recorded) if recorded is not None else None
    self.pos = 0
    self.log = []

  def choose(self, n: int) -> int:
    if n <= 1:
      return 0
    if self.recorded is not None:
      if self.pos < len(self.recorded):
        c = self.recorded[self.pos] % n
      else:
        c = 0
      self.pos += 1
    else:
      c = self.rng.randrange(n)
    self.log.append(c)
    return c

  def chance(self, p: float) -> bool:
    if p <= 0:
      return False
    # resolution 1/1000, recorded as an integer
    if self.recorded is not None:
      if self.pos < len(self.recorded):
        c = self.recorded[self.pos] % 1000
      else:
        c = 999
      self.pos += 1
    else:
      c = self.rng.randrange(1000)
    self.log.append(c)
    return c < int(p * 1000)


class CanonicalChooser(Chooser):
  """Lock-step, FIFO, fault-free schedule (always the first enabled action)."""

  def __init__(self):
    super().__init__(recorded=[])

  def choose(self, n):
    return 0

  def chance(self, p):
    return False


# ----------------------------------------------------------------------------
# lax proxy: unroll fori_loop so collectives inside stay visible
# ----------------------------------------------------------------------------

class LaxProxy:
  def __getattr__(self, name):
    return getattr(real_lax, name)

  @staticmethod
  def fori_loop(lower, upper, body_fun, init_val, **kw):
    val = init_val
    for i in range(int(lower), int(upper)):
      val = body_fun(i, val)
    return val


# ----------------------------------------------------------------------------
# jaxpr helpers
# ----------------------------------------------------------------------------

def _sub_jaxprs(params):
  for v in params.values():
    if isinstance(v, jex_core.ClosedJaxpr):
      yield v.jaxpr
    elif isinstance(v, jex_core.Jaxpr):
      yield v
    elif isinstance(v, (tuple, list)):
      for w in v:
        if isinstance(w, jex_core.ClosedJaxpr):
          yield w.jaxpr
        elif isinstance(w, jex_core.Jaxpr):
          yield w


def has_collectives(jaxpr) -> bool:
  for eqn in jaxpr.eqns:
    n = eqn.primitive.name
    if n in COLLECTIVES or n in UNSUPPORTED_COLLECTIVES:
      return True
    for sub in _sub_jaxprs(eqn.params):
      if has_collectives(sub):
        return True
  return False


def _names(axis_name):
  return tuple(axis_name) if isinstance(axis_name, (tuple, list)) else (axis_name,)


# ----------------------------------------------------------------------------
# one shard_map region
# ----------------------------------------------------------------------------

class Message:
  __slots__ = ('mid', 'src', 'dst', 'inst', 'kind', 'axis', 'slot', 'payload',
               'ready_at', 'dup')

  def __init__(self, mid, src, dst, inst, kind, axis, slot, payload, ready_at):
    self.mid, self.src, self.dst = mid, src, dst
    self.inst, self.kind, self.axis, self.slot = inst, kind, axis, slot
    self.payload, self.ready_at = payload, ready_at
    self.dup = False


class Region:
  """Executes one traced shard_map body on all simulated devices."""

  def __init__(self, sim, closed, names, sizes, flat_inputs_per_dev):
    self.sim = sim
    self.names = names
    self.sizes = sizes
    self.devs = list(itertools.product(*[range(s) for s in sizes]))
    self.closed = closed
    self.inputs = flat_inputs_per_dev
    self.inflight = []
    self.mail = {d: {} for d in self.devs}      # dev -> {(inst, slot): payload}
    self.seen_ids = {d: set() for d in self.devs}
    self.waiting = {}                            # dev -> (inst, kind, axis, needed slots, info)
    self.inst = {d: 0 for d in self.devs}
    self.sig = {d: [] for d in self.devs}        # per-device collective signature list
    self.done = {}
    self.stalled = {}
    self.now = 0
    self.next_mid = 0

  # -- mesh arithmetic
  def coord(self, dev, name):
    return dev[self.names.index(name)]

  def lin_index(self, dev, axis):
    idx = 0
    for n in _names(axis):
      idx = idx * self.sizes[self.names.index(n)] + self.coord(dev, n)
    return idx

  def axis_size(self, axis):
    s = 1
    for n in _names(axis):
      s *= self.sizes[self.names.index(n)]
    return s

  def peer(self, dev, axis, lin):
    """Device sharing all coordinates with `dev` except `axis` := lin."""
    out = list(dev)
    for n in reversed(_names(axis)):
      size = self.sizes[self.names.index(n)]
      out[self.names.index(n)] = lin % size
      lin //= size
    return tuple(out)

  # -- interpreter
  def interp(self, jaxpr, consts, args, dev):
    env = {}
    def read(v):
      return v.val if isinstance(v, jex_core.Literal) else env[v]
    for v, val in zip(jaxpr.constvars, consts):
      env[v] = val
    for v, val in zip(jaxpr.invars, args):
      env[v] = val
    for eqn in jaxpr.eqns:
      name = eqn.primitive.name
      invals = [read(v) for v in eqn.invars]
      if name == 'axis_index':
        ans = jnp.asarray(self.lin_index(dev, eqn.params['axis_name']), jnp.int32)
      elif name == 'ppermute':
        outs = yield ('ppermute', eqn.params['axis_name'], tuple(eqn.params['perm']), invals)
        ans = outs if eqn.primitive.multiple_results else outs[0]
      elif name == 'all_gather':
        if eqn.params.get('axis_index_groups') is not None:
          raise Unsupported('all_gather with axis_index_groups')
        outs = yield ('all_gather', eqn.params['axis_name'],
                      (eqn.params['all_gather_dimension'], eqn.params['tiled']), invals)
        ans = outs if eqn.primitive.multiple_results else outs[0]
      elif name in UNSUPPORTED_COLLECTIVES:
        raise Unsupported(f'collective {name} is not interpreted')
      elif name in ('jit', 'pjit', 'closed_call', 'core_call', 'remat', 'checkpoint',
                    'custom_jvp_call', 'custom_vjp_call') and any(
                        has_collectives(s) for s in _sub_jaxprs(eqn.params)):
        sub = None
        for key in ('jaxpr', 'call_jaxpr', 'fun_jaxpr'):
          if key in eqn.params:
            sub = eqn.params[key]
            break
        if sub is None:
          raise Unsupported(f'{name} with nested collectives')
        if isinstance(sub, jex_core.ClosedJaxpr):
          ans = yield from self.interp(sub.jaxpr, sub.consts, invals, dev)
        else:
          ans = yield from self.interp(sub, [], invals, dev)
        if not eqn.primitive.multiple_results:
          ans = ans[0]
      else:
        for sub in _sub_jaxprs(eqn.params):
          if has_collectives(sub):
            raise Unsupported(f'primitive {name} contains collectives')
        bind_params = eqn.primitive.get_bind_params(eqn.params)
        with eqn.ctx.manager:
          if isinstance(bind_params, tuple):
            subfuns, bp = bind_params
            ans = eqn.primitive.bind(*subfuns, *invals, **bp)
          else:
            ans = eqn.primitive.bind(*invals, **bind_params)
      if eqn.primitive.multiple_results:
        for v, a in zip(eqn.outvars, ans):
          env[v] = a
      else:
        env[eqn.outvars[0]] = ans
    return [read(v) for v in jaxpr.outvars]

  # -- network
  def post(self, src, dst, inst, kind, axis, slot, payload):
    sim = self.sim
    delay = 0
    f = sim.faults
    if f['p_delay'] and sim.chooser.chance(f['p_delay']):
      delay = 1 + sim.chooser.choose(f['max_delay'])
      sim.count('delay')
    m = Message(self.next_mid, src, dst, inst, kind, axis, slot, payload,
                self.now + delay)
    self.next_mid += 1
    if f.get('p_drop') and sim.chooser.chance(f['p_drop']):
      sim.count('drop')
      return
    self.inflight.append(m)
    sim.stats['messages'] += 1

  def start_collective(self, dev, req):
    kind, axis, info, invals = req
    inst = self.inst[dev]
    self.inst[dev] += 1
    self.sig[dev].append((kind, _names(axis)))
    me = self.lin_index(dev, axis)
    n = self.axis_size(axis)
    needed = []
    if kind == 'ppermute':
      perm = info
      for (s, d) in perm:
        if s == me:
          for k, x in enumerate(invals):
            self.post(dev, self.peer(dev, axis, d), inst, kind, _names(axis), (k,), x)
      srcs = [s for (s, d) in perm if d == me]
      if len(srcs) > 1:
        raise SimViolation('S-ORPHAN', f'ppermute perm has several sources for index {me}')
      if srcs:
        needed = [(k,) for k in range(len(invals))]
      self.waiting[dev] = (inst, kind, _names(axis), needed,
                           {'zeros': [jnp.zeros_like(x) for x in invals], 'n': len(invals)})
    else:
      dim, tiled = info
      for j in range(n):
        if j != me:
          for k, x in enumerate(invals):
            self.post(dev, self.peer(dev, axis, j), inst, kind, _names(axis), (me, k), x)
      needed = [(j, k) for j in range(n) if j != me for k in range(len(invals))]
      self.waiting[dev] = (inst, kind, _names(axis), needed,
                           {'own': list(invals), 'me': me, 'n': n, 'dim': dim,
                            'tiled': tiled})

  def deliver(self, m: Message):
    sim = self.sim
    if m.mid in self.seen_ids[m.dst]:
      sim.count('duplicate_ignored')
      return
    self.seen_ids[m.dst].add(m.mid)
    # S1: the receiver's collective with this instance number must be the same
    # kind over the same axis (checked now if known, else on arrival there)
    if m.inst < len(self.sig[m.dst]):
      if self.sig[m.dst][m.inst] != (m.kind, m.axis):
        raise SimViolation('S-ORPHAN',
                           f'message of {m.kind}{m.axis} instance {m.inst} delivered to a '
                           f'device whose instance {m.inst} is {self.sig[m.dst][m.inst]}')
    key = (m.inst, m.slot)
    if key in self.mail[m.dst]:
      raise SimViolation('S-ORPHAN', f'two messages for the same slot {key} at {m.dst}')
    self.mail[m.dst][key] = (m.kind, m.axis, m.payload)

  def ready(self, dev) -> bool:
    inst, kind, axis, needed, info = self.waiting[dev]
    return all((inst, s) in self.mail[dev] for s in needed)

  def finish_collective(self, dev):
    inst, kind, axis, needed, info = self.waiting.pop(dev)
    got = {}
    for s in needed:
      k, a, payload = self.mail[dev].pop((inst, s))
      if (k, a) != (kind, axis):
        raise SimViolation('S-ORPHAN', f'device {dev} instance {inst} {kind}{axis} '
                           f'consumed a message of {k}{a}')
      got[s] = payload
    if kind == 'ppermute':
      if needed:
        return [got[(k,)] for k in range(info['n'])]
      return info['zeros']
    outs = []
    for k in range(len(info['own'])):
      parts = [info['own'][k] if j == info['me'] else got[(j, k)]
               for j in range(info['n'])]
      if info['tiled']:
        outs.append(jnp.concatenate(parts, axis=info['dim']))
      else:
        outs.append(jnp.stack(parts, axis=info['dim']))
    return outs

  # -- scheduler
  def run(self):
    sim = self.sim
    ch = sim.chooser
    f = sim.faults
    gens = {d: self.interp(self.closed.jaxpr, self.closed.consts, self.inputs[d], d)
            for d in self.devs}
    pending_send = {d: None for d in self.devs}   # value to send into generator
    started = set()
    steps = 0
    n_dev = len(self.devs)
    while len(self.done) < n_dev:
      steps += 1
      if steps > sim.step_cap:
        raise SimViolation('S-LIVE', f'step cap {sim.step_cap} exceeded')
      # enabled actions, in a canonical order
      runnable = []
      for d in self.devs:
        if d in self.done:
          continue
        if self.stalled.get(d, 0) > self.now:
          continue
        if d in self.waiting and not self.ready(d):
          continue
        runnable.append(d)
      deliverable = [m for m in self.inflight if m.ready_at <= self.now]
      actions = [('run', d) for d in runnable] + [('deliver', m) for m in deliverable]
      if not actions:
        future = [m.ready_at for m in self.inflight] + [
            t for d, t in self.stalled.items() if t > self.now and d not in self.done]
        if future:
          self.now = min(future)          # discrete-event jump
          continue
        parked = {str(d): (self.waiting[d][0], self.waiting[d][1], self.waiting[d][2])
                  for d in self.devs if d in self.waiting}
        raise SimViolation('S-LIVE', f'DEADLOCK: no device runnable, nothing in flight; '
                           f'parked={parked}')
      kind, obj = actions[ch.choose(len(actions))]
      self.now += 1
      sim.stats['steps'] += 1
      if kind == 'deliver':
        m = obj
        self.inflight.remove(m)
        self.deliver(m)
        if f['p_dup'] and not m.dup and ch.chance(f['p_dup']):
          dup = Message(m.mid, m.src, m.dst, m.inst, m.kind, m.axis, m.slot,
                        m.payload, self.now + 1 + ch.choose(f['max_delay']))
          dup.dup = True
          self.inflight.append(dup)
          sim.count('duplicate')
        continue
      d = obj
      if f['p_stall'] and ch.chance(f['p_stall']):
        self.stalled[d] = self.now + 1 + ch.choose(f['max_stall'])
        sim.count('stall')
        continue
      try:
        if d in self.waiting:
          val = self.finish_collective(d)
          req = gens[d].send(val)
        elif d not in started:
          started.add(d)
          req = next(gens[d])
        else:
          raise AssertionError('runnable device neither waiting nor new')
      except StopIteration as stop:
        self.done[d] = stop.value
        continue
      self.start_collective(d, req)
    # S2: nothing may be left over (late duplicates are dropped by the transport)
    leftovers = [m for m in self.inflight if not m.dup]
    if leftovers:
      raise SimViolation('S-ORPHAN', f'{len(leftovers)} messages never consumed, e.g. '
                         f'{leftovers[0].kind}{leftovers[0].axis} inst {leftovers[0].inst}')
    for d in self.devs:
      if self.mail[d]:
        raise SimViolation('S-ORPHAN', f'device {d} finished with unread mail '
                           f'{list(self.mail[d])[:3]}')
    sigs = {tuple(self.sig[d]) for d in self.devs}
    if len(sigs) != 1:
      raise SimViolation('S-ORPHAN', 'devices executed different collective sequences')
    sim.stats['collectives'] += len(self.sig[self.devs[0]]) * n_dev
    return self.done


# ----------------------------------------------------------------------------
# simulator
# ----------------------------------------------------------------------------

DEFAULT_FAULTS = {'p_delay': 0.0, 'max_delay': 1, 'p_stall': 0.0, 'max_stall': 1,
                  'p_dup': 0.0,
                  # message loss is NOT a fault an SPMD program must survive; it is
                  # only used by the sensitivity self-test (deadlock detector)
                  'p_drop': 0.0}


class Simulator:
  def __init__(self, chooser: Chooser, faults=None, step_cap=2_000_000):
    self.chooser = chooser
    self.faults = dict(DEFAULT_FAULTS)
    if faults:
      self.faults.update(faults)
    self.step_cap = step_cap
    self.stats = {'regions': 0, 'messages': 0, 'steps': 0, 'collectives': 0,
                  'faults': {}, 'replica_checks': 0}
    self.violations = []

  def count(self, k):
    self.stats['faults'][k] = self.stats['faults'].get(k, 0) + 1

  # the drop-in for shard_map.shard_map
  def shard_map(self, f, mesh, in_specs, out_specs, check_rep=True, **kwargs):
    del check_rep, kwargs
    def wrapped(*args):
      return self._run_region(f, mesh, in_specs, out_specs, args)
    return wrapped

  def _split(self, x, spec, dev, names, sizes):
    x = jnp.asarray(x)
    idx = []
    spec = tuple(spec) + (None,) * (x.ndim - len(tuple(spec)))
    for dim, entry in enumerate(spec):
      if entry is None:
        idx.append(slice(None))
        continue
      lin, n = 0, 1
      for nm in _names(entry):
        s = sizes[names.index(nm)]
        lin = lin * s + dev[names.index(nm)]
        n *= s
      if x.shape[dim] % n:
        raise ValueError(
            f'shard_map: dimension {dim} of size {x.shape[dim]} is not evenly '
            f'divisible by {n} shards of {entry}')
      blk = x.shape[dim] // n
      idx.append(slice(lin * blk, (lin + 1) * blk))
    return x[tuple(idx)]

  def _run_region(self, f, mesh, in_specs, out_specs, args):
    names = tuple(mesh.axis_names)
    sizes = tuple(int(mesh.shape[n]) for n in names)
    devs = list(itertools.product(*[range(s) for s in sizes]))
    if not isinstance(in_specs, (tuple, list)):
      in_specs = (in_specs,)
    if len(in_specs) != len(args):
      raise Unsupported('in_specs / args arity mismatch')
    flat_args, arg_specs = [], []
    arg_defs = []
    for a, s in zip(args, in_specs):
      leaves, td = jax.tree_util.tree_flatten(a)
      arg_defs.append(td)
      flat_args.extend(leaves)
      arg_specs.extend([s] * len(leaves))
    per_dev = {d: [self._split(x, s, d, names, sizes) for x, s in zip(flat_args, arg_specs)]
               for d in devs}
    def flat_f(*flat):
      it = iter(flat)
      rebuilt = [jax.tree_util.tree_unflatten(td, [next(it) for _ in range(td.num_leaves)])
                 for td in arg_defs]
      return f(*rebuilt)
    closed, out_shape = jax.make_jaxpr(
        flat_f, axis_env=list(zip(names, sizes)), return_shape=True)(*per_dev[devs[0]])
    out_leaves, out_def = jax.tree_util.tree_flatten(out_shape)
    region = Region(self, closed, names, sizes, per_dev)
    self.stats['regions'] += 1
    results = region.run()
    # assemble per out_specs
    if isinstance(out_specs, jax.sharding.PartitionSpec):
      out_spec_leaves = [out_specs] * len(out_leaves)
    else:
      spec_leaves = jax.tree_util.tree_leaves(
          out_specs, is_leaf=lambda s: isinstance(s, jax.sharding.PartitionSpec))
      if len(spec_leaves) == len(out_leaves):
        out_spec_leaves = spec_leaves
      elif len(spec_leaves) == 1:
        out_spec_leaves = spec_leaves * len(out_leaves)
      else:
        raise Unsupported('out_specs prefix-tree broadcasting')
    assembled = []
    for k, spec in enumerate(out_spec_leaves):
      assembled.append(self._assemble(k, spec, results, names, sizes, devs))
    return jax.tree_util.tree_unflatten(out_def, assembled)

  def _assemble(self, k, spec, results, names, sizes, devs):
    sample = results[devs[0]][k]
    spec = tuple(spec) + (None,) * (sample.ndim - len(tuple(spec)))
    used = []
    for entry in spec:
      if entry is not None:
        used.extend(_names(entry))
    unused = [n for n in names if n not in used]
    # S4: replicas along unused mesh axes must be bit-identical
    groups = {}
    for d in devs:
      key = tuple(d[names.index(n)] for n in names if n in used)
      groups.setdefault(key, []).append(d)
    for key, members in groups.items():
      ref = np.asarray(results[members[0]][k])
      for d in members[1:]:
        self.stats['replica_checks'] += 1
        if not np.array_equal(ref, np.asarray(results[d][k]), equal_nan=True):
          self.violations.append(('S-REPL', f'output {k}: replicas along unused mesh '
                                  f'axes {unused} differ between devices {members[0]} and {d}'))
          break
    def pick(fixed):
      d = tuple(fixed.get(n, 0) for n in names)
      return results[d][k]
    def build(dim, fixed):
      if dim == len(spec):
        return pick(fixed)
      entry = spec[dim]
      if entry is None:
        return build(dim + 1, fixed)
      nms = _names(entry)
      szs = [sizes[names.index(n)] for n in nms]
      parts = []
      for combo in itertools.product(*[range(s) for s in szs]):
        f2 = dict(fixed)
        f2.update(dict(zip(nms, combo)))
        parts.append(build(dim + 1, f2))
      return jnp.concatenate(parts, axis=dim)
    return build(0, {})

  # -- seam management
  @contextlib.contextmanager
  def installed(self):
    from dinosaur import coordinate_systems
    from dinosaur import jax_numpy_utils
    from dinosaur import spherical_harmonic
    saved = (jax_numpy_utils.shard_map, spherical_harmonic.shmap,
             jax_numpy_utils.lax, coordinate_systems._with_sharding_constraint)
    jax_numpy_utils.shard_map = types.SimpleNamespace(shard_map=self.shard_map)
    spherical_harmonic.shmap = self.shard_map
    jax_numpy_utils.lax = LaxProxy()
    coordinate_systems._with_sharding_constraint = lambda x, sharding: x
    try:
      with jax.disable_jit():
        yield self
    finally:
      (jax_numpy_utils.shard_map, spherical_harmonic.shmap,
       jax_numpy_utils.lax, coordinate_systems._with_sharding_constraint) = saved
