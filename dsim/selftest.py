"""Sensitivity self-test: apply each mutant to a scratch copy of /repo/dinosaur
(outside /repo and /verif, removed afterwards) and confirm the property's check
reports a VIOLATION; also `seeded` runs the checks against /verif/seeded/*/patch.diff.

usage: selftest.py mutants [--prop C14] [--only name[,name]] [--tier quick] [--scale F]
"""
import argparse
import json
import os
import shutil
import subprocess
import sys
import tempfile
import time

HERE = os.path.dirname(os.path.abspath(__file__))
VERIF = os.path.dirname(HERE)
sys.path.insert(0, VERIF)
REPO = '/repo'


def scratch_copy():
  d = tempfile.mkdtemp(prefix='dsim-mut-')
  shutil.copytree(os.path.join(REPO, 'dinosaur'), os.path.join(d, 'dinosaur'),
                  ignore=shutil.ignore_patterns('__pycache__'))
  return d


def run_check(prop, repo, tier, scale, extra=()):
  cmd = ['/venv/bin/python', os.path.join(HERE, 'cli.py'), prop, '--tier', tier,
         '--repo', repo, '--no-evidence', '--no-selftest',
         '--runs-scale', str(scale)] + list(extra)
  t0 = time.time()
  env = dict(os.environ)
  env['DSIM_REPLAY_DIR'] = os.path.join(repo, '_replays')  # scratch, removed with the copy
  p = subprocess.run(cmd, capture_output=True, text=True, env=env)
  return p.returncode, p.stdout, time.time() - t0


def main():
  ap = argparse.ArgumentParser()
  ap.add_argument('cmd', choices=['mutants', 'seeded'])
  ap.add_argument('--prop', default='')
  ap.add_argument('--only', default='')
  ap.add_argument('--tier', default='quick')
  ap.add_argument('--scale', type=float, default=1.0)
  ap.add_argument('--legs', default='')
  args = ap.parse_args()
  extra = ['--legs', args.legs] if args.legs else []
  results = []
  if args.cmd == 'mutants':
    from mutants import defs
    todo = [m for m in defs.M if (not args.prop or m['property'] == args.prop)
            and (not args.only or m['name'] in args.only.split(','))]
    for m in todo:
      d = scratch_copy()
      try:
        path = os.path.join(d, m['file'])
        src = open(path).read()
        if src.count(m['old']) != 1:
          results.append((m['property'], m['name'], 'BAD-MUTANT', 0, ''))
          print(f"{m['property']} {m['name']}: old text occurs {src.count(m['old'])} times", flush=True)
          continue
        open(path, 'w').write(src.replace(m['old'], m['new']))
        rc, out, dt = run_check(m['property'], d, args.tier, args.scale, extra)
        oracles = sorted({l.split('oracle=')[1].split()[0] for l in out.splitlines() if 'oracle=' in l})
        verdict = {1: 'CAUGHT', 0: 'MISSED', 2: 'HARNESS-ERROR'}.get(rc, f'rc={rc}')
        if rc == 1 and not any(l.startswith(f"VIOLATION property={m['property']} ") for l in out.splitlines()):
          verdict = 'MISSED(other)'
        results.append((m['property'], m['name'], verdict, round(dt, 1), ','.join(oracles)))
        print(f"{m['property']} {m['name']}: {verdict} in {dt:.0f}s {oracles}", flush=True)
        if rc == 2:
          print(out[-1500:], flush=True)
      finally:
        shutil.rmtree(d, ignore_errors=True)
  else:
    seeded = os.path.join(VERIF, 'seeded')
    for name in sorted(os.listdir(seeded)):
      meta_p = os.path.join(seeded, name, 'meta.json')
      if not os.path.exists(meta_p):
        continue
      meta = json.load(open(meta_p))
      prop = meta['property']
      if args.prop and prop != args.prop:
        continue
      if args.only and name not in args.only.split(','):
        continue
      d = scratch_copy()
      try:
        p = subprocess.run(['patch', '-p1', '-d', d, '-i',
                            os.path.join(seeded, name, 'patch.diff')],
                           capture_output=True, text=True)
        if p.returncode != 0:
          print(f'{name}: patch failed: {p.stdout} {p.stderr}', flush=True)
          results.append((prop, name, 'BAD-PATCH', 0, ''))
          continue
        rc, out, dt = run_check(prop, d, args.tier, args.scale, extra)
        oracles = sorted({l.split('oracle=')[1].split()[0] for l in out.splitlines() if 'oracle=' in l})
        verdict = {1: 'CAUGHT', 0: 'MISSED', 2: 'HARNESS-ERROR'}.get(rc, f'rc={rc}')
        results.append((prop, name, verdict, round(dt, 1), ','.join(oracles)))
        print(f'{prop} {name}: {verdict} in {dt:.0f}s {oracles}', flush=True)
        if rc == 2:
          print(out[-1500:], flush=True)
      finally:
        shutil.rmtree(d, ignore_errors=True)
  caught = sum(1 for r in results if r[2] == 'CAUGHT')
  print(f'\n{caught}/{len(results)} caught')
  for r in results:
    print(' ', *r)


if __name__ == '__main__':
  main()
