"""Sensitivity self-test: apply each mutant to a scratch copy of /repo/dinosaur
(outside /repo and /verif, removed afterwards) and confirm the property's check
reports a VIOLATION; also `seeded` runs the checks against /verif/seeded/*/patch.diff.

usage: selftest.py mutants [--prop C14] [--only name[,name]] [--tier quick] [--scale F]
"""
import argparse
import json
import os
import shutil
import subprocess
import sys
import tempfile
import time

HERE = os.path.dirname(os.path.abspath(__file__))
VERIF = os.path.dirname(HERE)
sys.path.insert(0, VERIF)
REPO = '/repo'


def scratch_copy():
  d = tempfile.mkdtemp(prefix='dsim-mut-')
  shutil.copytree(os.path.join(REPO, 'dinosaur'), os.path.join(d, 'dinosaur'),
                  ignore=shutil.ignore_patterns('__pycache__'))
  return d


def run_check(prop, repo, tier, scale, extra=()):
  cmd = ['/venv/bin/python', os.path.join(HERE, 'cli.py'), prop, '--tier', tier,
         '--repo', repo, '--no-evidence', '--no-selftest',
         '--runs-scale', str(scale)] + list(extra)
  t0 = time.time()
  env = dict(os.environ)
  env['DSIM_REPLAY_DIR'] = os.path.join(repo, '_replays')  # scratch, removed with the copy
  p = subprocess.run(cmd, capture_output=True, text=True, env=env)
  return p.returncode, p.stdout, time.time() - t0


def determinism(args):
  """Every run seed of a check executed twice: 16 workers / PYTHONHASHSEED=0 vs
  3 workers / PYTHONHASHSEED=12345 (fresh interpreters); digests must agree."""
  props = [args.prop] if args.prop else ['C14', 'C07', 'C11', 'C19']
  bad = 0
  for prop in props:
    d = tempfile.mkdtemp(prefix='dsim-det-')
    try:
      outs = []
      for tag, workers, hs in (('a', 16, '0'), ('b', 3, '12345')):
        f = os.path.join(d, f'{tag}.json')
        cmd = ['/venv/bin/python', os.path.join(HERE, 'cli.py'), prop, '--tier', args.tier,
               '--no-evidence', '--no-selftest', '--runs-scale', str(args.scale),
               '--workers', str(workers), '--hashseed', hs, '--dump-digests', f]
        if args.legs:
          cmd += ['--legs', args.legs]
        env = dict(os.environ)
        env['DSIM_REPLAY_DIR'] = os.path.join(d, 'replays')
        p = subprocess.run(cmd, capture_output=True, text=True, env=env)
        if p.returncode != 0:
          print(prop, tag, 'exit', p.returncode, p.stdout[-800:])
        outs.append(json.load(open(f)))
      a, b = outs
      keys = sorted(set(a) | set(b))
      diff = [k for k in keys if a.get(k) != b.get(k)]
      bad += len(diff)
      print(f'{prop}: {len(keys)} run seeds executed twice, {len(diff)} digest mismatches {diff[:5]}',
            flush=True)
    finally:
      shutil.rmtree(d, ignore_errors=True)
  return 1 if bad else 0


def drop_selftest():
  """A dropped message must be reported as DEADLOCK (S-LIVE) by the simulator."""
  code = '''
import sys, random
sys.path.insert(0, %r)
import jax; jax.config.update("jax_enable_x64", True)
from dsim import spmd_engine as S, spmd, kernel
rng = random.Random(7)
hits = 0
for i in range(6):
  cfg = S.draw_config(rng, {"p_model": 0.0, "max_devices": 8})
  cfg["mesh"] = [1, 2, 2] if i %% 2 else [2, 4, 1]
  ops = [{"op": "to_nodal", "ds": i, "field": "3d", "levels": 4}]
  faults = dict(spmd.DEFAULT_FAULTS); faults["p_drop"] = 0.2
  log, viols, agg, _ = S.execute(cfg, ops, faults, [i])
  hits += any(v["oracle"] == "S-LIVE" and "DEADLOCK" in v["message"] for v in viols)
print("deadlock detected in", hits, "of 6 runs with dropped messages")
sys.exit(0 if hits >= 4 else 1)
''' % VERIF
  env = dict(os.environ)
  env['JAX_PLATFORMS'] = 'cpu'
  p = subprocess.run(['/venv/bin/python', '-c', code], capture_output=True, text=True, env=env)
  print(p.stdout[-600:], p.stderr[-600:] if p.returncode else '')
  return p.returncode


def simcheck():
  """Differential test of the simulator's collectives against real XLA shard_map:
  random small SPMD bodies (ppermute incl. partial permutations, all_gather tiled /
  stacked, axis_index on single and tuple axes) on 8 virtual devices must give
  bit-identical results under dsim.spmd.Simulator (seeded faulty schedule)."""
  code = '''
import sys, random
sys.path.insert(0, %r)
import jax, numpy as np
jax.config.update("jax_enable_x64", True)
import jax.numpy as jnp
from jax import lax
from jax.experimental.shard_map import shard_map
from dsim import spmd, spmd_engine
P = jax.sharding.PartitionSpec
rng = random.Random(11)
bad = 0
n = 0
for case in range(60):
  shape = rng.choice([(2, 2, 2), (1, 4, 2), (2, 4, 1), (1, 2, 4), (8, 1, 1), (1, 1, 8), (2, 1, 4)])
  names = ("z", "x", "y")
  sizes = dict(zip(names, shape))
  real = jax.sharding.Mesh(np.array(jax.devices()[:8]).reshape(shape), names)
  fake = spmd_engine.abstract_mesh(shape)
  prog = []
  for _ in range(rng.randint(1, 4)):
    kind = rng.choice(["ppermute", "ppermute", "all_gather", "axis_index", "mix"])
    ax = rng.choice(["z", "x", "y", ("x", "z"), ("z", "x"), ("x", "y")])
    size = int(np.prod([sizes[a] for a in (ax if isinstance(ax, tuple) else (ax,))]))
    if kind == "ppermute":
      src = list(range(size)); dst = src[:]; rng.shuffle(dst)
      keep = [i for i in range(size) if rng.random() < 0.8]
      perm = [(src[i], dst[i]) for i in keep]
      prog.append(("ppermute", ax, perm))
    elif kind == "all_gather":
      prog.append(("all_gather", ax, rng.choice([0, 1]), rng.random() < 0.5))
    else:
      prog.append((kind, ax))
  def body(a, prog=prog):
    for step in prog:
      if step[0] == "ppermute":
        a = a * 3 + lax.ppermute(a, step[1], perm=step[2])
      elif step[0] == "all_gather":
        g = lax.all_gather(a, step[1], axis=step[2], tiled=step[3])
        a = (a + jnp.sum(g, axis=step[2], keepdims=True)[tuple(slice(0, s) for s in a.shape)].astype(a.dtype) * 5) if step[3] else (a + jnp.sum(g, axis=step[2]).astype(a.dtype) * 5)
      elif step[0] == "axis_index":
        a = a + lax.axis_index(step[1]).astype(a.dtype) * 7
      else:
        a = a * a + a * lax.axis_index(step[1]).astype(a.dtype) + 1
    return a
  spec = rng.choice([P("z", "x", "y"), P("z", None, "y"), P(None, ("x", "z"), "y"), P(("z", "x"), None, "y")])
  x = np.random.RandomState(case).randint(-9, 9, size=(8, 8, 8)).astype(np.int32)
  try:
    want = np.asarray(jax.jit(shard_map(body, real, (spec,), spec, check_rep=False))(x))
  except Exception as e:
    continue   # program not accepted by real jax either (e.g. shape constraints)
  sim = spmd.Simulator(spmd.Chooser(rng=random.Random(case)),
                       {"p_delay": 0.3, "max_delay": 20, "p_stall": 0.02, "max_stall": 30, "p_dup": 0.05})
  with jax.disable_jit():
    got = np.asarray(sim.shard_map(body, fake, (spec,), spec, check_rep=False)(x))
  n += 1
  if got.shape != want.shape or not np.array_equal(got, want):
    bad += 1
    print("MISMATCH case", case, shape, spec, prog, int(np.max(np.abs(got.astype(np.int64) - want))) if got.shape == want.shape else (got.shape, want.shape))
print("simulator vs real shard_map:", n, "programs compared,", bad, "mismatches")
sys.exit(1 if bad or n < 20 else 0)
''' % VERIF
  env = dict(os.environ)
  env['JAX_PLATFORMS'] = 'cpu'
  env['XLA_FLAGS'] = '--xla_force_host_platform_device_count=8'
  p = subprocess.run(['/venv/bin/python', '-c', code], capture_output=True, text=True, env=env)
  print(p.stdout[-2500:], p.stderr[-1500:] if p.returncode else '')
  return p.returncode


def main():
  ap = argparse.ArgumentParser()
  ap.add_argument('cmd', choices=['mutants', 'seeded', 'determinism', 'drop', 'simcheck'])
  ap.add_argument('--prop', default='')
  ap.add_argument('--only', default='')
  ap.add_argument('--tier', default='quick')
  ap.add_argument('--scale', type=float, default=1.0)
  ap.add_argument('--legs', default='')
  args = ap.parse_args()
  extra = ['--legs', args.legs] if args.legs else []
  results = []
  if args.cmd == 'determinism':
    return determinism(args)
  if args.cmd == 'drop':
    return drop_selftest()
  if args.cmd == 'simcheck':
    return simcheck()
  if args.cmd == 'mutants':
    from mutants import defs
    todo = [m for m in defs.M if (not args.prop or m['property'] == args.prop)
            and (not args.only or m['name'] in args.only.split(','))]
    for m in todo:
      d = scratch_copy()
      try:
        path = os.path.join(d, m['file'])
        src = open(path).read()
        if src.count(m['old']) != 1:
          results.append((m['property'], m['name'], 'BAD-MUTANT', 0, ''))
          print(f"{m['property']} {m['name']}: old text occurs {src.count(m['old'])} times", flush=True)
          continue
        open(path, 'w').write(src.replace(m['old'], m['new']))
        rc, out, dt = run_check(m['property'], d, args.tier, args.scale, extra)
        oracles = sorted({l.split('oracle=')[1].split()[0] for l in out.splitlines() if 'oracle=' in l})
        verdict = {1: 'CAUGHT', 0: 'MISSED', 2: 'HARNESS-ERROR'}.get(rc, f'rc={rc}')
        if rc == 1 and not any(l.startswith(f"VIOLATION property={m['property']} ") for l in out.splitlines()):
          verdict = 'MISSED(other)'
        results.append((m['property'], m['name'], verdict, round(dt, 1), ','.join(oracles)))
        print(f"{m['property']} {m['name']}: {verdict} in {dt:.0f}s {oracles}", flush=True)
        if rc == 2:
          print(out[-1500:], flush=True)
      finally:
        shutil.rmtree(d, ignore_errors=True)
  else:
    seeded = os.path.join(VERIF, 'seeded')
    for name in sorted(os.listdir(seeded)):
      meta_p = os.path.join(seeded, name, 'meta.json')
      if not os.path.exists(meta_p):
        continue
      meta = json.load(open(meta_p))
      prop = meta['property']
      if args.prop and prop != args.prop:
        continue
      if args.only and name not in args.only.split(','):
        continue
      d = scratch_copy()
      try:
        p = subprocess.run(['patch', '-p1', '-d', d, '-i',
                            os.path.join(seeded, name, 'patch.diff')],
                           capture_output=True, text=True)
        if p.returncode != 0:
          print(f'{name}: patch failed: {p.stdout} {p.stderr}', flush=True)
          results.append((prop, name, 'BAD-PATCH', 0, ''))
          continue
        rc, out, dt = run_check(prop, d, args.tier, args.scale, extra)
        oracles = sorted({l.split('oracle=')[1].split()[0] for l in out.splitlines() if 'oracle=' in l})
        verdict = {1: 'CAUGHT', 0: 'MISSED', 2: 'HARNESS-ERROR'}.get(rc, f'rc={rc}')
        results.append((prop, name, verdict, round(dt, 1), ','.join(oracles)))
        print(f'{prop} {name}: {verdict} in {dt:.0f}s {oracles}', flush=True)
        if rc == 2:
          print(out[-1500:], flush=True)
      finally:
        shutil.rmtree(d, ignore_errors=True)
  caught = sum(1 for r in results if r[2] == 'CAUGHT')
  print(f'\n{caught}/{len(results)} caught')
  for r in results:
    print(' ', *r)


if __name__ == '__main__':
  sys.exit(main() or 0)
