"""Restructuring codecs on the checkpoint path (C19): each composition must be
the identity on restore. Driven by engine R's CODEC / UPSAMPLE events with the
live model state as payload."""
from __future__ import annotations

import dataclasses
import random
import traceback

import jax
import jax.numpy as jnp
import numpy as np

from dinosaur import coordinate_systems
from dinosaur import pytree_utils
from dinosaur import xarray_utils

from dsim import gen

KEY_POOL = ['tracers', 'transients', 'temperature', 't', 'tt', 'diagnostics',
            'derived', 'd', 'aux', 'a', 'a_b', 'state', 'surface', 's1', 'q',
            'Q', 'x', 'xy', 'level_0', 'misc']
SEPS = ['&', '&', '/', '.', '::', '|']


def _leaf_pool(state):
  leaves = [np.asarray(l) for l in jax.tree_util.tree_leaves(state)]
  return leaves + [np.arange(3.0), np.float64(2.5), np.ones((2, 1))]


def gen_nested(rng: random.Random, leaves, depth=0, allow_empty=True):
  n = rng.randint(1 if depth else 2, 4)
  keys = rng.sample(KEY_POOL, n)
  d = {}
  for k in keys:
    r = rng.random()
    if r < 0.25 and allow_empty:
      d[k] = {}
    elif r < 0.55 and depth < 2:
      d[k] = gen_nested(rng, leaves, depth + 1, allow_empty)
    else:
      d[k] = rng.choice(leaves)
  return d


def same_nested(a, b, path=''):
  if isinstance(a, dict) != isinstance(b, dict):
    return False, f'{path}: dict vs leaf'
  if isinstance(a, dict):
    if list(sorted(a)) != list(sorted(b)):
      return False, f'{path}: keys {sorted(b)} != {sorted(a)}'
    for k in a:
      ok, msg = same_nested(a[k], b[k], f'{path}/{k}')
      if not ok:
        return ok, msg
    return True, ''
  if a is None or b is None:
    return (a is None and b is None), f'{path}: None mismatch'
  x, y = np.asarray(a), np.asarray(b)
  if x.shape != y.shape or x.dtype != y.dtype or not np.array_equal(x, y):
    return False, f'{path}: leaf differs'
  return True, ''


def paths(d, sep, prefix=''):
  flat, empty = {}, []
  for k, v in d.items():
    p = prefix + sep + k if prefix else k
    if isinstance(v, dict) and v:
      f2, e2 = paths(v, sep, p)
      flat.update(f2)
      empty += e2
    elif isinstance(v, dict):
      empty.append(p)
    else:
      flat[p] = v
  return flat, empty


def tree_bits_equal(a, b):
  la, ta = jax.tree_util.tree_flatten(a)
  lb, tb = jax.tree_util.tree_flatten(b)
  if ta != tb:
    return False, f'tree structure {tb} != {ta}'
  for i, (x, y) in enumerate(zip(la, lb)):
    x, y = np.asarray(x), np.asarray(y)
    if x.shape != y.shape:
      return False, f'leaf {i}: shape {y.shape} != {x.shape}'
    if x.dtype != y.dtype:
      return False, f'leaf {i}: dtype {y.dtype} != {x.dtype}'
    if not np.array_equal(x, y):
      return False, f'leaf {i}: values differ'
  return True, ''


def run_codecs(ev, state, coords, job):
  rng = random.Random(ev['ds'])
  out = []
  def bad(msg):
    out.append(('R-CODEC', msg))
  leaves = _leaf_pool(state)
  # 1. flatten / unflatten of nested dictionaries (random names, empty branches, sep)
  for _ in range(4):
    d = gen_nested(rng, leaves)
    sep = rng.choice(SEPS)
    try:
      flat, empty = pytree_utils.flatten_dict(d, sep=sep)
      back = pytree_utils.unflatten_dict(flat, empty, sep=sep)
    except Exception as e:  # pylint: disable=broad-except
      bad(f'flatten/unflatten_dict raised {type(e).__name__}: {str(e)[:160]} on keys '
          f'{_shape_of(d)} sep={sep!r}')
      continue
    ok, msg = same_nested(d, back)
    if not ok:
      bad(f'unflatten_dict(flatten_dict(d, sep={sep!r})) != d: {msg}; d={_shape_of(d)}')
    wf, we = paths(d, sep)
    if sorted(flat) != sorted(wf) or sorted(empty) != sorted(we):
      bad(f'flatten_dict keys {sorted(flat)} / empty {sorted(empty)} != expected '
          f'{sorted(wf)} / {sorted(we)} (sep={sep!r})')
  # 2. replace_with_matching_or_default
  d = gen_nested(rng, leaves)
  flat, _ = paths(d, '&')
  chosen = [k for k in sorted(flat) if rng.random() < 0.5]
  repl_flat = {k: np.float64(i + 1) for i, k in enumerate(chosen)}
  try:
    repl = pytree_utils.unflatten_dict(repl_flat) if repl_flat else {}
    res = pytree_utils.replace_with_matching_or_default(d, repl, default=None)
    rflat, rempty = paths(res, '&')
    _, dempty = paths(d, '&')
    want = {k: repl_flat.get(k) for k in flat}
    if sorted(rflat) != sorted(want) or sorted(rempty) != sorted(dempty) or any(
        (rflat[k] is None) != (want[k] is None) or
        (want[k] is not None and float(rflat[k]) != float(want[k])) for k in want):
      bad(f'replace_with_matching_or_default gave {rflat} (empty {rempty}), expected '
          f'{want} (empty {dempty})')
  except Exception as e:  # pylint: disable=broad-except
    bad(f'replace_with_matching_or_default raised {type(e).__name__}: {str(e)[:160]} '
        f'on {_shape_of(d)} / replace {sorted(repl_flat)}')
  # 3. pack / unpack along the level axis with heterogeneous level counts
  arrs = [np.asarray(l) for l in jax.tree_util.tree_leaves(state) if np.ndim(l) >= 3]
  if arrs:
    tree = {'a': arrs[0], 'b': {'c': arrs[-1][:1], 'd': arrs[0][: max(1, arrs[0].shape[0] - 1)]}}
    for axis in (-3, arrs[0].ndim - 3):
      try:
        packed = pytree_utils.pack_pytree(tree, axis)
        back = pytree_utils.unpack_to_pytree(packed, pytree_utils.shape_structure(tree), axis)
        ok, msg = tree_bits_equal(tree, back)
        if not ok:
          bad(f'unpack_to_pytree(pack_pytree(t, {axis})) != t: {msg}')
      except Exception as e:  # pylint: disable=broad-except
        bad(f'pack/unpack raised {type(e).__name__}: {str(e)[:160]}')
    # 3b. pack / unpack along other axes (sizes differ along the packed axis only)
    a0 = arrs[0]
    n_last = a0.shape[-1]
    if n_last >= 3:
      cut = 1 + rng.randrange(n_last - 1)
      tl = {'a': a0[..., :cut], 'b': {'c': a0[..., cut:], 'd': a0[..., :1]}}
      t0 = {'a': np.stack([a0, a0 * 2]), 'b': {'c': a0[None] + 1.0}}
      for tree_x, axis in ((tl, -1), (tl, a0.ndim - 1), (t0, 0), (t0, -a0.ndim - 1)):
        try:
          packed = pytree_utils.pack_pytree(tree_x, axis)
          back = pytree_utils.unpack_to_pytree(
              packed, pytree_utils.shape_structure(tree_x), axis)
          ok, msg = tree_bits_equal(tree_x, back)
          if not ok:
            bad(f'unpack_to_pytree(pack_pytree(t, axis={axis})) != t: {msg}')
        except Exception as e:  # pylint: disable=broad-except
          bad(f'pack/unpack along axis {axis} raised {type(e).__name__}: {str(e)[:160]}')
    # 3c. default arguments of the pair must agree with each other (leaves with a
    #     leading time / batch axis, where axis -3 is not axis 0)
    try:
      t4 = {'a': np.stack([a0, a0 * 2, a0 * 3]), 'b': {'c': np.stack([a0[:1]] * 3)}}
      back = pytree_utils.unpack_to_pytree(pytree_utils.pack_pytree(t4),
                                           pytree_utils.shape_structure(t4))
      ok, msg = tree_bits_equal(t4, back)
      if not ok:
        bad(f'unpack_to_pytree(pack_pytree(t)) with default axes != t: {msg}')
      t3 = {'a': a0, 'b': {'c': a0[:1]}}
      back = pytree_utils.unpack_to_pytree(pytree_utils.pack_pytree(t3),
                                           pytree_utils.shape_structure(t3))
      ok, msg = tree_bits_equal(t3, back)
      if not ok:
        bad(f'unpack_to_pytree(pack_pytree(t)) with default axes != t (3-D leaves): {msg}')
      same3 = {'u': a0, 'v': {'w': a0 * 2}}
      back = pytree_utils.unstack_to_pytree(pytree_utils.stack_pytree(same3), same3)
      ok, msg = tree_bits_equal(same3, back)
      if not ok:
        bad(f'unstack_to_pytree(stack_pytree(t)) with default axes != t: {msg}')
    except Exception as e:  # pylint: disable=broad-except
      bad(f'pack/unpack or stack/unstack with default axes raised {type(e).__name__}: '
          f'{str(e)[:160]}')
    # 4. stack / unstack
    same = {'u': arrs[0], 'v': {'w': arrs[0] * 2, 'z': arrs[0] + 1}}
    for axis in (0, 1, -1):
      try:
        st = pytree_utils.stack_pytree(same, axis)
        back = pytree_utils.unstack_to_pytree(st, same, axis)
        ok, msg = tree_bits_equal(same, back)
        if not ok:
          bad(f'unstack_to_pytree(stack_pytree(t, {axis})) != t: {msg}')
      except Exception as e:  # pylint: disable=broad-except
        bad(f'stack/unstack raised {type(e).__name__}: {str(e)[:160]}')
    # 5. split_along_axis / concat_along_axis, split_axis
    n = arrs[0].shape[0]
    tree2 = {'u': arrs[0], 'v': (arrs[0] * 3,)}
    for idx in sorted({0, n, rng.randint(0, n), max(1, n // 2)}):
      try:
        a, b = pytree_utils.split_along_axis(tree2, idx, axis=0)
        la = jax.tree_util.tree_leaves(a)[0].shape[0]
        if la != idx:
          bad(f'split_along_axis at {idx}: first part has length {la}')
        back = pytree_utils.concat_along_axis([a, b], axis=0)
        ok, msg = tree_bits_equal(tree2, back)
        if not ok:
          bad(f'concat_along_axis(split_along_axis(t, {idx})) != t: {msg}')
      except Exception as e:  # pylint: disable=broad-except
        bad(f'split/concat at {idx} raised {type(e).__name__}: {str(e)[:160]}')
    for axis in (0, arrs[0].ndim - 1):
      for keep in (False, True):
        try:
          parts = pytree_utils.split_axis(tree2, axis, keep_dims=keep)
          if len(parts) != arrs[0].shape[axis]:
            bad(f'split_axis(axis={axis}) gave {len(parts)} parts')
          if keep:
            back = pytree_utils.concat_along_axis(list(parts), axis)
          else:
            back = jax.tree_util.tree_map(lambda *xs: jnp.stack(xs, axis), *parts)
          ok, msg = tree_bits_equal(tree2, back)
          if not ok:
            bad(f're-assembling split_axis(t, {axis}, keep_dims={keep}) != t: {msg}')
        except Exception as e:  # pylint: disable=broad-except
          bad(f'split_axis raised {type(e).__name__}: {str(e)[:160]}')
    # 5b. split_axis with a negative axis on leaves of different rank
    het = {'p': arrs[0][0], 'q': arrs[0], 'r': np.stack([arrs[0], arrs[0] * 2])}
    for axis in (-1, -2):
      try:
        parts = pytree_utils.split_axis(het, axis, keep_dims=False)
        want_n = arrs[0].shape[axis]
        if len(parts) != want_n:
          bad(f'split_axis(axis={axis}) on mixed-rank leaves gave {len(parts)} parts')
        for i, part in enumerate(parts):
          ref = {k: np.take(v, i, axis=axis) for k, v in het.items()}
          ok, msg = tree_bits_equal(ref, part)
          if not ok:
            bad(f'split_axis(axis={axis}) part {i} on mixed-rank leaves is not the '
                f'slice along that axis of every leaf: {msg}')
            break
        back = jax.tree_util.tree_map(lambda *xs: jnp.stack(xs, axis), *parts)
        ok, msg = tree_bits_equal(het, back)
        if not ok:
          bad(f're-stacking split_axis(t, {axis}) on mixed-rank leaves != t: {msg}')
      except Exception as e:  # pylint: disable=broad-except
        bad(f'split_axis(axis={axis}) on mixed-rank leaves raised {type(e).__name__}: '
            f'{str(e)[:160]}')
  # 6. as_dict round trip of the state object
  try:
    if dataclasses.is_dataclass(state):
      dd, from_dict = pytree_utils.as_dict(state)
      back = from_dict(dd)
      ok, msg = tree_bits_equal(state, back)
      if not ok or type(back) is not type(state):
        bad(f'as_dict round trip of {type(state).__name__} != identity: {msg}')
  except Exception as e:  # pylint: disable=broad-except
    bad(f'as_dict raised {type(e).__name__}: {str(e)[:160]}')
  # 7. nodal covariate data through a dataset and back (surface + time axes)
  try:
    if job['family'] != 'sw' and job['layers'] > 1:
      g = coords.horizontal
      if tuple(g.nodal_shape) != tuple(g.modal_shape):
        T = rng.randint(2, 4)
        rs = np.random.RandomState(ev['ds'])
        L = job['layers']
        data = {'sst': rs.standard_normal((T, 1) + tuple(g.nodal_shape)),
                'wind': rs.standard_normal((T, L) + tuple(g.nodal_shape))}
        times = np.arange(T) * 1.0
        ds = xarray_utils.dynamic_covariate_data_to_xarray(data, coords=coords, times=times)
        back = xarray_utils.xarray_to_data_dict(ds)
        for k in data:
          if k not in back or back[k].shape != data[k].shape or not np.array_equal(back[k], data[k]):
            got = None if k not in back else back[k].shape
            bad(f'xarray_to_data_dict(dynamic_covariate_data_to_xarray(d))[{k!r}] shape '
                f'{got} / values differ from written {data[k].shape}')
        # the same covariates with sample and time axes, read back with the
        # dynamic-covariate reader (surface fields regain their level axis)
        S = rng.randint(2, 3)
        data2 = {'sst': rs.standard_normal((S, T, 1) + tuple(g.nodal_shape)),
                 'wind': rs.standard_normal((S, T, L) + tuple(g.nodal_shape)),
                 'sim_time': np.tile(times, (S, 1))}
        ids = np.arange(S) + 3
        ds2 = xarray_utils.dynamic_covariate_data_to_xarray(
            data2, coords=coords, times=times, sample_ids=ids)
        back2 = xarray_utils.xarray_to_dynamic_covariate_data(
            ds2, covariates_to_include=['sst', 'wind'])
        for k in data2:
          if k not in back2 or np.shape(back2[k]) != data2[k].shape or not np.array_equal(
              back2[k], data2[k]):
            got = None if k not in back2 else np.shape(back2[k])
            bad(f'xarray_to_dynamic_covariate_data(dynamic_covariate_data_to_xarray(d, '
                f'sample+time))[{k!r}] shape {got} / values differ from written '
                f'{data2[k].shape}')
  except Exception as e:  # pylint: disable=broad-except
    bad(f'covariate dataset round trip raised {type(e).__name__}: {str(e)[:160]}')
  # 9. state written / read under an external naming convention
  try:
    g9 = coords.horizontal
    if job['family'] in ('dry', 'time', 'moist', 'cloud') and (
        tuple(g9.nodal_shape) != tuple(g9.modal_shape)):
      d = {k: (dict(v) if isinstance(v, dict) else v) for k, v in state.asdict().items()}
      d = jax.tree_util.tree_map(np.asarray, d)
      renaming = {'vo': 'vorticity', 'dv': 'divergence', 'tv': 'temperature_variation',
                  'lnsp': 'log_surface_pressure'}
      ds = xarray_utils.data_to_xarray_with_renaming(
          d, to_xarray_fn=xarray_utils.data_to_xarray, renaming_dict=renaming,
          coords=coords, times=None)
      missing = [k for k in renaming if k not in ds]
      if missing:
        bad(f'data_to_xarray_with_renaming did not produce variables {missing}')
      else:
        import functools
        names = sorted(d.get('tracers', {}))
        fn = (xarray_utils.xarray_to_primitive_eq_data if job['family'] == 'dry'
              else xarray_utils.xarray_to_primitive_equations_with_time_data)
        back = xarray_utils.xarray_to_data_with_renaming(
            ds, xarray_to_data_fn=functools.partial(fn, tracers_to_include=names),
            renaming_dict=renaming)
        ok, msg = tree_bits_equal(d, back)
        if not ok:
          bad(f'state written and read back under a renaming convention differs: {msg}')
  except Exception as e:  # pylint: disable=broad-except
    bad(f'renaming round trip raised {type(e).__name__}: {str(e)[:200]}')
  # 10. auxiliary features (orography, reference profiles) through a dataset
  try:
    g = coords.horizontal
    rs = np.random.RandomState(ev['ds'] ^ 77)
    aux = {xarray_utils.OROGRAPHY: rs.standard_normal(tuple(g.nodal_shape)),
           xarray_utils.REF_TEMP_KEY: np.asarray(job['tref'][:job['layers']], np.float64)
           if job['family'] != 'sw' else np.arange(job['layers'], dtype=np.float64)}
    if job['family'] == 'sw':
      aux = {xarray_utils.OROGRAPHY: aux[xarray_utils.OROGRAPHY],
             xarray_utils.REF_POTENTIAL_KEY: np.asarray(job['sw_phi'], np.float64)}
    import xarray
    ds = xarray_utils.aux_features_to_xarray(aux)
    if rng.random() < 0.5:
      ds = xarray.load_dataset(ds.to_netcdf())
    back = xarray_utils.aux_features_from_xarray(ds)
    if sorted(back) != sorted(aux):
      bad(f'aux features keys {sorted(back)} != {sorted(aux)}')
    else:
      for k in aux:
        if back[k].shape != aux[k].shape or not np.array_equal(back[k], aux[k]):
          bad(f'aux feature {k} not reproduced bit-identically')
  except Exception as e:  # pylint: disable=broad-except
    bad(f'aux features round trip raised {type(e).__name__}: {str(e)[:200]}')
  # 8. coordinate systems of every vertical type through dataset attributes
  #    (and netCDF bytes): the discretisation must be reproduced
  try:
    import xarray
    from dinosaur import layer_coordinates, sigma_coordinates, vertical_interpolation
    gcfg = None
    for it in range(3):
      if it != 1 or gcfg is None:
        gcfg = gen.draw_grid_cfg(rng, 2, 24, model=False)
      else:
        gcfg = dict(gcfg)   # same truncation and nodes as before, other radius / offset
      gcfg['offset'] = rng.choice([0.0, 0.1, float(np.pi / 7), rng.uniform(0, 1)])
      gcfg['radius'] = rng.choice([None, 1.0, 2.5, rng.uniform(0.5, 3)])
      grid = gen.build_grid(gcfg, coords.horizontal.spherical_harmonics_impl)
      vk = rng.choice(['sigma', 'layer', 'pressure'])
      n = rng.randint(1, 9)
      if vk == 'sigma':
        vert = sigma_coordinates.SigmaCoordinates(
            np.asarray(gen.draw_sigma_boundaries(rng, n)))
      elif vk == 'layer':
        vert = layer_coordinates.LayerCoordinates(n)
      else:
        vert = vertical_interpolation.PressureCoordinates(
            np.cumsum([rng.uniform(1, 200) for _ in range(n)]))
      cs_ = coordinate_systems.CoordinateSystem(grid, vert)
      ds = xarray.Dataset({'x': (('k',), np.arange(3.0))}, attrs=cs_.asdict())
      if rng.random() < 0.5:
        ds = xarray.load_dataset(ds.to_netcdf())
      back = xarray_utils.coordinate_system_from_attrs(ds.attrs)
      for f in ('longitude_wavenumbers', 'total_wavenumbers', 'longitude_nodes',
                'latitude_nodes', 'latitude_spacing', 'longitude_offset', 'radius'):
        a, b = getattr(cs_.horizontal, f), getattr(back.horizontal, f)
        if (a != b) if isinstance(a, str) else (float(a) != float(b)):
          out.append(('R-COORDS', f'{f} reconstructed from attrs as {b!r}, was {a!r} '
                      f'({vk} vertical)'))
      if type(back.vertical).__name__ != type(vert).__name__ or back.vertical.layers != vert.layers:
        out.append(('R-COORDS', f'{vk} vertical reconstructed as '
                    f'{type(back.vertical).__name__} with {back.vertical.layers} layers'))
      else:
        for attr in ('boundaries', 'centers'):
          if hasattr(vert, attr) and not np.array_equal(
              np.asarray(getattr(vert, attr), np.float64),
              np.asarray(getattr(back.vertical, attr), np.float64)):
            out.append(('R-COORDS', f'{vk} vertical {attr} not reproduced from attrs'))
      if not (back.vertical == vert):
        out.append(('R-COORDS', f'{vk} vertical reconstructed from attrs compares unequal'))
  except Exception as e:  # pylint: disable=broad-except
    out.append(('R-COORDS', f'coordinate-system attrs round trip raised '
                f'{type(e).__name__}: {str(e)[:200]}'))
  return out


def _shape_of(d):
  if isinstance(d, dict):
    return {k: _shape_of(v) for k, v in d.items()}
  return '*'


def run_updown(ev, state, coords, job):
  rng = random.Random(ev['ds'])
  out = []
  def bad(msg):
    out.append(('R-UPDOWN', msg))
  if coords.spmd_mesh is not None or any(coords.horizontal.modal_padding):
    return out
  g = coords.horizontal
  gcfg = dict(job['grid'])
  dk = rng.randint(1, 4)
  gcfg['k'] = gcfg['k'] + dk
  if gcfg['kind'] == 'construct':
    gcfg['g'] = gcfg['g'] + 2
  if gcfg['kind'] == 'custom':
    gcfg['L'] = gcfg['L'] + dk + rng.randint(0, 1)
    gcfg['lon'] = max(gcfg['lon'], 3 * gcfg['k'] + 1)
    gcfg['lat'] = max(gcfg['lat'], -(-(3 * gcfg['L'] + 1) // 2))
  fine_grid = gen.build_grid(gcfg, g.spherical_harmonics_impl)
  fine = coordinate_systems.CoordinateSystem(fine_grid, coords.vertical)
  try:
    up = coordinate_systems.get_spectral_upsample_fn(coords, fine)
    down = coordinate_systems.get_spectral_downsample_fn(fine, coords)
    rs = np.random.RandomState(ev['ds'] ^ 5)
    # heterogeneous leaves: the state plus a 2-D modal field (e.g. orography) and a
    # stack of frames with a leading time axis
    first3d = [np.asarray(l) for l in jax.tree_util.tree_leaves(state) if np.ndim(l) == 3][0]
    state = {'state': state,
             'orography': gen.random_modal(rs, g, (), amp=1.0, clip_top=False),
             'frames': np.stack([first3d, first3d * 0.5])}
    # canonical dtypes (float32 when x64 is off) before the round trip
    state = jax.tree_util.tree_map(jnp.asarray, state)
    su = up(state)
    want_shape = tuple(fine_grid.modal_shape)
    for leaf in jax.tree_util.tree_leaves(su):
      if np.ndim(leaf) >= 2 and tuple(np.shape(leaf)[-2:]) != want_shape:
        bad(f'up-sampled leaf has modal shape {np.shape(leaf)[-2:]}, fine grid has '
            f'{want_shape}')
        break
    sd = down(su)
    ok, msg = tree_bits_equal(jax.tree_util.tree_map(np.asarray, state),
                              jax.tree_util.tree_map(np.asarray, sd))
    if not ok:
      bad(f'downsample(upsample(x)) != x ({type(g.spherical_harmonics).__name__}, '
          f'{g.modal_shape}->{fine_grid.modal_shape}): {msg}')
    su2 = coordinate_systems.get_spectral_interpolate_fn(coords, fine)(state)
    sd2 = coordinate_systems.get_spectral_interpolate_fn(fine, coords)(su2)
    ok, msg = tree_bits_equal(jax.tree_util.tree_map(np.asarray, state),
                              jax.tree_util.tree_map(np.asarray, sd2))
    if not ok:
      bad(f'interpolate(fine->coarse)(interpolate(coarse->fine)(x)) != x: {msg}')
    # the up-sampled coefficients represent the same function on the finer grid
    mixed = dataclasses.replace(
        fine_grid, longitude_wavenumbers=g.longitude_wavenumbers,
        total_wavenumbers=g.total_wavenumbers)
    for a, b in zip(jax.tree_util.tree_leaves(state), jax.tree_util.tree_leaves(su)):
      if np.ndim(a) < 2:
        continue
      fa = np.asarray(mixed.to_nodal(jnp.asarray(a)))
      fb = np.asarray(fine_grid.to_nodal(jnp.asarray(b)))
      scale = max(float(np.max(np.abs(fa))), 1e-30)
      err = float(np.max(np.abs(fa - fb))) / scale
      if not err <= (1e-11 if jax.config.jax_enable_x64 else 2e-5):
        bad(f'up-sampled coefficients synthesise a different function on the finer '
            f'grid (rel err {err:.2e})')
        break
  except Exception as e:  # pylint: disable=broad-except
    bad(f'up/down-sampling raised {type(e).__name__}: {str(e)[:200]}\n'
        + traceback.format_exc()[-600:])
  return out
