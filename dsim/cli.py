"""Parent process of every check: plans legs, fans out workers, aggregates,
verifies determinism and replays, writes evidence. Never imports jax.

usage: cli.py <property> [--tier quick|thorough] [--replay PATH] [--seed N]
              [--workers N] [--repo PATH] [--no-selftest] [--runs-scale F]
exit 0: property held on everything explored (KNOWN-FINDING lines allowed)
exit 1: `VIOLATION property=<id> replay=<path>` printed
exit 2: HARNESS-ERROR (timeouts, crashes, nondeterminism) - never a pass
"""
from __future__ import annotations

import argparse
import json
import os
import shutil
import signal
import subprocess
import sys
import tempfile
import time

HERE = os.path.dirname(os.path.abspath(__file__))
sys.path.insert(0, os.path.dirname(HERE))
from dsim import kernel  # noqa: E402
from dsim import plans  # noqa: E402

PY = '/venv/bin/python'
WORKER = os.path.join(HERE, 'worker.py')


def log(*a):
  print(*a, flush=True)


def worker_env(devices: int, hashseed: str = '0') -> dict:
  env = dict(os.environ)
  env['PYTHONHASHSEED'] = hashseed
  env['JAX_PLATFORMS'] = 'cpu'
  flags = ['--xla_cpu_multi_thread_eigen=false',
           'intra_op_parallelism_threads=1']
  if devices > 1:
    flags.insert(0, f'--xla_force_host_platform_device_count={devices}')
  env['XLA_FLAGS'] = ' '.join(flags)
  env['OMP_NUM_THREADS'] = '1'
  env['OPENBLAS_NUM_THREADS'] = '1'
  env['MKL_NUM_THREADS'] = '1'
  env['PYTHONDONTWRITEBYTECODE'] = '1'
  env['DINOSAUR_VERIF'] = '1'
  env.pop('PYTHONPATH', None)
  return env


class Batch:
  """A set of worker processes for one leg."""

  def __init__(self, scratch, leg, prop, tier, pairs, workers, repo,
               hashseed='0', tag='main', early_stop=True):
    self.leg = leg
    self.skipped = 0
    self.procs = []
    self.outs = []
    workers = max(1, min(workers, len(pairs)))
    chunks = [pairs[i::workers] for i in range(workers)]
    for w, chunk in enumerate(chunks):
      out = os.path.join(scratch, f"{leg['name']}-{tag}-{w}.jsonl")
      jobf = os.path.join(scratch, f"{leg['name']}-{tag}-{w}.job.json")
      job = {'engine': leg['engine'], 'property': prop, 'tier': tier,
             'seeds': chunk, 'opts': leg.get('opts', {}), 'out': out,
             'timeout': leg.get('timeout', 1500), 'x64': leg.get('x64', True),
             'stop_on_violation': early_stop}
      if repo:
        job['repo'] = repo
      with open(jobf, 'w') as f:
        json.dump(job, f)
      errf = open(out + '.err', 'w')
      p = subprocess.Popen([PY, WORKER, jobf], stdout=errf, stderr=errf,
                           env=worker_env(leg.get('devices', 1), hashseed),
                           cwd=scratch, start_new_session=True)
      self.procs.append(p)
      self.outs.append(out)

  def wait(self, deadline):
    ok = True
    for p in self.procs:
      remaining = max(1.0, deadline - time.time())
      try:
        p.wait(timeout=remaining)
      except subprocess.TimeoutExpired:
        ok = False
        try:
          os.killpg(p.pid, signal.SIGKILL)
        except Exception:
          pass
        p.wait()
    return ok

  def results(self):
    res, errors = [], []
    for out, p in zip(self.outs, self.procs):
      done = False
      if os.path.exists(out):
        for line in open(out):
          line = line.strip()
          if not line:
            continue
          r = json.loads(line)
          if r.get('meta'):
            continue
          if r.get('done'):
            done = True
            continue
          if r.get('skipped'):
            self.skipped += 1
            continue
          r['_leg'] = self.leg['name']
          res.append(r)
      if not done:
        tail = ''
        if os.path.exists(out + '.err'):
          tail = open(out + '.err').read()[-3000:]
        errors.append(f'worker for leg {self.leg["name"]} did not finish '
                      f'(rc={p.returncode}):\n{tail}')
    return res, errors


def run_replay(scratch, path, repo):
  rep = kernel.load_replay(path)
  leg = dict(plans.ENGINE_DEFAULTS[rep['engine']])
  leg['name'] = 'replay'
  out = os.path.join(scratch, f'replay-{os.path.basename(path)}.jsonl')
  jobf = out + '.job.json'
  job = {'engine': rep['engine'], 'property': rep['property'], 'mode': 'replay',
         'replay': rep, 'out': out, 'timeout': 1500, 'tier': 'quick',
         'opts': {}, 'x64': rep.get('x64', True)}
  if repo:
    job['repo'] = repo
  with open(jobf, 'w') as f:
    json.dump(job, f)
  errf = open(out + '.err', 'w')
  p = subprocess.Popen([PY, WORKER, jobf], stdout=errf, stderr=errf,
                       env=worker_env(leg.get('devices', 1)), cwd=scratch,
                       start_new_session=True)
  try:
    p.wait(timeout=1500)
  except subprocess.TimeoutExpired:
    os.killpg(p.pid, signal.SIGKILL)
    p.wait()
    return {'harness_error': 'replay timed out'}
  res = None
  if os.path.exists(out):
    for line in open(out):
      r = json.loads(line)
      if r.get('meta') or r.get('done'):
        continue
      res = r
  if res is None:
    return {'harness_error': 'replay produced no result:\n'
            + open(out + '.err').read()[-3000:]}
  return res


def same_violation(rep: dict, res: dict) -> bool:
  want = rep.get('violation', {})
  for v in res.get('violations', []):
    if v.get('oracle') == want.get('oracle') and v.get('property') == want.get('property'):
      return True
  return False


def main(argv=None):
  ap = argparse.ArgumentParser()
  ap.add_argument('property')
  ap.add_argument('--tier', default=os.environ.get('VERIF_TIER') or 'quick')
  ap.add_argument('--seed', type=int,
                  default=int(os.environ.get('VERIF_SEED') or 0))
  ap.add_argument('--replay')
  ap.add_argument('--workers', type=int, default=0)
  ap.add_argument('--repo', default=None,
                  help='alternative checkout (scratch copy for mutant runs)')
  ap.add_argument('--no-selftest', action='store_true')
  ap.add_argument('--no-evidence', action='store_true')
  ap.add_argument('--runs-scale', type=float, default=1.0)
  ap.add_argument('--legs', default='')
  ap.add_argument('--dump-digests', default='',
                  help='write {leg#index: digest} JSON (determinism self-test)')
  ap.add_argument('--hashseed', default='0')
  ap.add_argument('--no-early-stop', action='store_true')
  args = ap.parse_args(argv)
  prop = args.property
  tier = args.tier if args.tier in ('quick', 'thorough') else 'quick'
  t_start = time.time()
  scratch = tempfile.mkdtemp(prefix='dsim-')
  try:
    if args.replay:
      return do_replay(args, scratch)
    return do_check(args, prop, tier, scratch, t_start)
  finally:
    shutil.rmtree(scratch, ignore_errors=True)


def do_replay(args, scratch):
  rep = kernel.load_replay(args.replay)
  res = run_replay(scratch, args.replay, args.repo)
  if 'harness_error' in res:
    log('HARNESS-ERROR: ' + res['harness_error'])
    return 2
  log(f"replay {args.replay}: digest={res.get('digest')}")
  for v in res.get('violations', []):
    log(f"  violation: property={v['property']} oracle={v['oracle']} {v['message']}")
  if same_violation(rep, res):
    log(f"VIOLATION property={rep['property']} replay={args.replay}")
    return 1
  log('replay did not reproduce the recorded violation on this tree')
  return 0


def do_check(args, prop, tier, scratch, t_start):
  if prop not in plans.PLANS:
    log(f'property {prop} is not claimed by this framework (see MANIFEST.not_applicable)')
    return 2
  legs = plans.PLANS[prop][tier]
  if args.legs:
    keep = set(args.legs.split(','))
    legs = [l for l in legs if l['name'] in keep]
  total_workers = args.workers or plans.TOTAL_WORKERS
  log(f'dsim: property={prop} tier={tier} VERIF_SEED={args.seed} '
      f'legs={[l["name"] for l in legs]}')
  harness_errors = []
  all_results = []
  leg_summaries = []
  selftest_pairs = []
  # ---- main batches: legs run concurrently, each with its share of workers
  batches = []
  weight_sum = sum(l.get('weight', 1) for l in legs)
  for leg in legs:
    runs = max(1, int(round(leg['runs'] * args.runs_scale)))
    pairs = [[i, kernel.derive_seed(args.seed, f"{prop}/{leg['name']}", i)]
             for i in range(runs)]
    w = leg.get('max_workers') or max(
        1, int(total_workers * leg.get('weight', 1) / weight_sum))
    if args.workers:
      w = max(1, int(round(w * args.workers / plans.TOTAL_WORKERS)))
    b = Batch(scratch, leg, prop, tier, pairs, w, args.repo,
              hashseed=args.hashseed, early_stop=not args.no_early_stop)
    batches.append((leg, b, pairs))
  deadline = time.time() + max(l.get('deadline', 1700) for l in legs)
  for leg, b, pairs in batches:
    if not b.wait(deadline):
      harness_errors.append(f'leg {leg["name"]}: wall timeout, workers killed')
    res, errs = b.results()
    harness_errors.extend(errs)
    all_results.extend(res)
    n_self = 0 if args.no_selftest else leg.get('selftest', 2)
    selftest_pairs.append((leg, pairs[:n_self]))
    leg_summaries.append({'leg': leg['name'], 'engine': leg['engine'],
                          'runs': len(res),
                          'runs_skipped_after_first_violation': b.skipped,
                          'wall_sum_s': round(sum(r.get('wall', 0) for r in res), 2)})
  for r in all_results:
    if 'harness_error' in r:
      harness_errors.append(f"run {r.get('_leg')}#{r.get('index')} seed={r.get('seed')}: "
                            + r['harness_error'][-1500:])
  # ---- determinism self-test: same seeds, fresh interpreter, other hash seed,
  # single worker; digests must match
  st_pairs = 0
  st_mismatch = []
  if not args.no_selftest and not harness_errors:
    st_batches = []
    for leg, pairs in selftest_pairs:
      if pairs:
        st_batches.append((leg, Batch(scratch, leg, prop, tier, pairs, 1,
                                      args.repo, hashseed='12345', tag='st'),
                           pairs))
    deadline = time.time() + 1500
    by_key = {(r['_leg'], r['index']): r for r in all_results if 'index' in r}
    for leg, b, pairs in st_batches:
      if not b.wait(deadline):
        harness_errors.append(f'self-test leg {leg["name"]}: timeout')
      res, errs = b.results()
      harness_errors.extend(errs)
      for r in res:
        if 'harness_error' in r:
          harness_errors.append('self-test: ' + r['harness_error'][-1500:])
          continue
        st_pairs += 1
        first = by_key.get((leg['name'], r['index']))
        if first is None or first.get('digest') != r.get('digest'):
          st_mismatch.append({'leg': leg['name'], 'index': r['index'],
                              'seed': r['seed'],
                              'a': None if first is None else first.get('digest'),
                              'b': r.get('digest')})
    if st_mismatch:
      harness_errors.append(f'determinism self-test failed: {st_mismatch}')
  if args.dump_digests:
    with open(args.dump_digests, 'w') as f:
      json.dump({f"{r['_leg']}#{r['index']}": r.get('digest')
                 for r in all_results if 'index' in r}, f, indent=0, sort_keys=True)
  # ---- violations
  findings = kernel.load_known_findings()
  mine, cross, known_printed = [], [], []
  for r in all_results:
    for c in r.get('cross', []) or []:
      cross.append({'property': c.get('property'), 'oracle': c.get('oracle'),
                    'leg': r.get('_leg'), 'seed': r.get('seed'),
                    'message': str(c.get('message', ''))[:200]})
    for v in r.get('violations', []):
      v = dict(v)
      v['_leg'] = r.get('_leg')
      v['_seed'] = r.get('seed')
      if v.get('property') != prop:
        cross.append({'property': v.get('property'), 'oracle': v.get('oracle'),
                      'leg': r.get('_leg'), 'seed': r.get('seed'),
                      'message': v.get('message', '')[:200]})
        continue
      kf = kernel.match_known(v, findings)
      if kf is not None:
        known_printed.append((kf, v))
      else:
        mine.append(v)
  exit_code = 0
  seen_known = set()
  for kf, v in known_printed:
    if kf['id'] in seen_known:
      continue
    seen_known.add(kf['id'])
    log(f"KNOWN-FINDING: property={prop} {kf['id']}: {kf['what']}")
  reported = []
  seen_classes = set()
  for v in mine:
    cls = (v.get('oracle'), kernel.canonical(v.get('sig', {})))
    path = v.get('replay')
    entry = {'oracle': v.get('oracle'), 'message': v.get('message'),
             'replay': path, 'leg': v.get('_leg'), 'seed': v.get('_seed')}
    if cls in seen_classes and len(reported) >= 5:
      continue
    seen_classes.add(cls)
    if path and len(reported) < 3:
      rr = run_replay(scratch, path, args.repo)
      entry['replay_reproduced'] = (
          'harness_error' not in rr
          and same_violation(kernel.load_replay(path), rr))
      if 'harness_error' not in rr:
        entry['replay_digest_equal'] = (
            rr.get('digest') == kernel.load_replay(path).get('digest'))
    reported.append(entry)
    log(f"VIOLATION property={prop} replay={path}")
    log(f"  oracle={v.get('oracle')} leg={v.get('_leg')} seed={v.get('_seed')}: "
        f"{v.get('message')}")
    if 'replay_reproduced' in entry:
      log(f"  replayed in a fresh interpreter: reproduced={entry['replay_reproduced']} "
          f"digest_equal={entry.get('replay_digest_equal')}")
    exit_code = 1
  if harness_errors:
    for e in harness_errors[:10]:
      log('HARNESS-ERROR: ' + e)
    if exit_code == 0:
      exit_code = 2
  # ---- evidence
  wall = time.time() - t_start
  if not args.no_evidence:
    ev = build_evidence(prop, tier, args.seed, legs, leg_summaries, all_results,
                        wall, len(mine), cross, known_printed, harness_errors,
                        st_pairs, st_mismatch, reported)
    os.makedirs(kernel.EVIDENCE_DIR, exist_ok=True)
    with open(os.path.join(kernel.EVIDENCE_DIR, f'{prop}.json'), 'w') as f:
      json.dump(ev, f, indent=1, sort_keys=True, default=kernel._default)
      f.write('\n')
  ok_runs = [r for r in all_results if 'harness_error' not in r]
  log(f'dsim: {len(ok_runs)} runs, {len(mine)} violations, '
      f'{len(known_printed)} known-finding hits, {len(cross)} cross-property '
      f'observations, self-test {st_pairs} pairs / {len(st_mismatch)} mismatches, '
      f'{wall:.1f}s wall, exit {exit_code}')
  return exit_code


def merge_counts(dst, src):
  for k, v in (src or {}).items():
    if isinstance(v, dict):
      merge_counts(dst.setdefault(k, {}), v)
    elif isinstance(v, (int, float)):
      if k.endswith('_max'):
        dst[k] = max(dst.get(k, 0), v)
      else:
        dst[k] = dst.get(k, 0) + v


def build_evidence(prop, tier, seed, legs, leg_summaries, results, wall,
                   n_viol, cross, known_printed, harness_errors, st_pairs,
                   st_mismatch, reported):
  ok = [r for r in results if 'harness_error' not in r]
  sigs = set()
  for r in ok:
    if r.get('nontrivial') and not r.get('inconclusive'):
      if 'sigs' in r:
        sigs.update(r['sigs'])
      else:
        sigs.add(r.get('sig'))
  cover = {}
  for r in ok:
    merge_counts(cover, r.get('cover'))
  samples = []
  per_leg_seen = {}
  for r in ok:
    if r.get('sample') is not None and per_leg_seen.get(r['_leg'], 0) < 2:
      per_leg_seen[r['_leg']] = per_leg_seen.get(r['_leg'], 0) + 1
      samples.append({'leg': r['_leg'], 'seed': r['seed'],
                      'digest': r.get('digest'), 'trace': r['sample']})
  if not samples:
    samples = [{'note': 'no run completed'}]
  hours = max(wall, 1e-9) / 3600.0
  spec = plans.PLANS[prop]
  coverage = {
      'evaluations': len(ok),
      'distinct_nontrivial': len(sigs),
      'rule': spec['rule'],
      'samples': samples,
      'simulated_runs_per_hour': round(len(ok) / hours),
      'seeds_per_hour': round(len(ok) / hours),
      'verif_seed': seed,
      'legs': leg_summaries,
      'counters': cover,
      'determinism_selftest': {'pairs_compared': st_pairs,
                               'mismatches': len(st_mismatch),
                               'how': 'same run seed re-executed in a fresh '
                                      'interpreter, 1 worker, PYTHONHASHSEED=12345 '
                                      'vs 0; event-log digests compared'},
      'real_vs_stub': spec['real_vs_stub'],
      'cross_property_observations': cross[:20],
      'known_findings_printed': sorted({kf['id'] for kf, _ in known_printed}),
      'inconclusive_runs': sum(1 for r in ok if r.get('inconclusive')),
      'harness_errors': harness_errors[:5],
      'violations_reported': reported[:10],
  }
  return {
      'property_id': prop,
      'tier': tier,
      'seed': seed,
      'level': 'exploration',
      'coverage': coverage,
      'assumptions': spec['assumptions'],
      'wall_s': round(wall, 2),
      'violations': n_viol,
  }


if __name__ == '__main__':
  sys.exit(main())
