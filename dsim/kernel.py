"""Common kernel: seeds, event log, digests, replay files, shrinking, known findings.

This module never imports jax at import time (the parent process must stay
jax-free); array helpers import numpy lazily.
"""
from __future__ import annotations

import hashlib
import json
import os
import random
import time

VERIF_DIR = os.path.dirname(os.path.dirname(os.path.abspath(__file__)))
REPLAY_DIR = os.environ.get('DSIM_REPLAY_DIR') or os.path.join(VERIF_DIR, 'replays')
EVIDENCE_DIR = os.path.join(VERIF_DIR, 'evidence')
KNOWN_FINDINGS = os.path.join(VERIF_DIR, 'known_findings.json')


# ----------------------------------------------------------------------------
# seeds
# ----------------------------------------------------------------------------

def derive_seed(verif_seed: int, engine: str, index: int) -> int:
  """One integer decides everything: run seed i of an engine."""
  h = hashlib.sha256(f'{verif_seed}:{engine}:{index}'.encode()).digest()
  return int.from_bytes(h[:8], 'big') >> 1


def sub_rng(seed: int, tag: str) -> random.Random:
  """Independent PRNG stream for a tagged purpose (fixed draw order per tag)."""
  h = hashlib.sha256(f'{seed}/{tag}'.encode()).digest()
  return random.Random(int.from_bytes(h[:8], 'big'))


# ----------------------------------------------------------------------------
# canonical JSON and hashing
# ----------------------------------------------------------------------------

def _default(o):
  import numpy as np  # lazy
  if isinstance(o, (np.integer,)):
    return int(o)
  if isinstance(o, (np.floating,)):
    return float(o)
  if isinstance(o, (np.bool_,)):
    return bool(o)
  if isinstance(o, np.ndarray):
    return o.tolist()
  if isinstance(o, (set, frozenset)):
    return sorted(o)
  if isinstance(o, tuple):
    return list(o)
  if isinstance(o, bytes):
    return o.hex()
  return repr(o)


def canonical(obj) -> str:
  return json.dumps(obj, sort_keys=True, separators=(',', ':'), default=_default)


def sha(obj) -> str:
  return hashlib.sha256(canonical(obj).encode()).hexdigest()


def array_hash(x) -> str:
  """SHA-256 (truncated) of an array's dtype, shape and bytes."""
  import numpy as np
  a = np.ascontiguousarray(np.asarray(x))
  h = hashlib.sha256()
  h.update(str(a.dtype).encode())
  h.update(str(a.shape).encode())
  h.update(a.tobytes())
  return h.hexdigest()[:16]


def tree_hash(tree) -> str:
  """Hash of a pytree: structure + per-leaf array hashes (order = jax flatten)."""
  import jax
  leaves, treedef = jax.tree_util.tree_flatten(tree)
  return sha([str(treedef)] + [array_hash(l) for l in leaves])[:16]


# ----------------------------------------------------------------------------
# event log
# ----------------------------------------------------------------------------

class EventLog:
  """Canonical event log of one simulated run; its hash is the run digest.

  Logging never draws from a PRNG and never reads a clock.
  """

  def __init__(self, keep: int = 400):
    self.seq = 0
    self._h = hashlib.sha256()
    self.keep = keep
    self.head = []  # first `keep` events, for samples / replay files
    self.counts = {}

  def emit(self, kind: str, **fields):
    ev = {'seq': self.seq, 'kind': kind}
    ev.update(fields)
    line = canonical(ev)
    self._h.update(line.encode())
    self._h.update(b'\n')
    if len(self.head) < self.keep:
      self.head.append(json.loads(line))
    self.counts[kind] = self.counts.get(kind, 0) + 1
    self.seq += 1
    return ev

  def digest(self) -> str:
    return self._h.hexdigest()


# ----------------------------------------------------------------------------
# violations, replay files
# ----------------------------------------------------------------------------

def violation_flag_set() -> bool:
  """True once some run of this check invocation has reported a violation."""
  return os.path.exists('VIOLATION_FOUND')


def make_violation(prop: str, oracle: str, message: str, **detail) -> dict:
  v = {'property': prop, 'oracle': oracle, 'message': message}
  v.update(detail)
  return v


def write_replay(obj: dict, tag: str) -> str:
  os.makedirs(REPLAY_DIR, exist_ok=True)
  name = f"{obj.get('property', 'X')}-{obj.get('engine', 'E')}-{tag}.json"
  path = os.path.join(REPLAY_DIR, name)
  with open(path, 'w') as f:
    json.dump(obj, f, indent=1, sort_keys=True, default=_default)
    f.write('\n')
  return path


def load_replay(path: str) -> dict:
  with open(path) as f:
    return json.load(f)


# ----------------------------------------------------------------------------
# shrinking (cache-aware greedy delta debugging)
# ----------------------------------------------------------------------------

def ddmin_list(items: list, still_fails, budget: list) -> list:
  """Classic ddmin over a list. `budget` is a one-element list of remaining
  evaluations (mutated)."""
  n = 2
  items = list(items)
  while len(items) >= 2 and budget[0] > 0:
    chunk = max(1, len(items) // n)
    subsets = [items[i:i + chunk] for i in range(0, len(items), chunk)]
    reduced = False
    for i in range(len(subsets)):
      if budget[0] <= 0:
        break
      complement = [x for j, s in enumerate(subsets) if j != i for x in s]
      budget[0] -= 1
      if complement and still_fails(complement):
        items = complement
        n = max(n - 1, 2)
        reduced = True
        break
    if not reduced:
      if n >= len(items):
        break
      n = min(len(items), n * 2)
  return items


def greedy_shrink(case, candidates, still_fails, max_evals: int = 60,
                  max_seconds: float = 120.0):
  """Repeatedly replace `case` by the first simpler candidate that still fails
  in the same violation class. `candidates(case)` yields simpler cases in
  order of preference. Returns (minimised case, evaluations used)."""
  t0 = time.time()
  evals = 0
  progress = True
  while progress and evals < max_evals and time.time() - t0 < max_seconds:
    progress = False
    for cand in candidates(case):
      if evals >= max_evals or time.time() - t0 > max_seconds:
        break
      evals += 1
      try:
        ok = still_fails(cand)
      except Exception:  # a candidate the engine cannot even run is not simpler
        ok = False
      if ok:
        case = cand
        progress = True
        break
  return case, evals


# ----------------------------------------------------------------------------
# known findings
# ----------------------------------------------------------------------------

def load_known_findings() -> list:
  if not os.path.exists(KNOWN_FINDINGS):
    return []
  with open(KNOWN_FINDINGS) as f:
    data = json.load(f)
  return data.get('findings', [])


def _match_pred(pred: dict, violation: dict) -> bool:
  """Every key in pred must equal the violation's (nested 'sig') value."""
  sig = violation.get('sig', {})
  for k, want in pred.items():
    have = sig.get(k, violation.get(k))
    if isinstance(want, list):
      if have not in want:
        return False
    elif have != want:
      return False
  return True


def match_known(violation: dict, findings: list):
  """Returns the *open* known finding that lists this violation, if any.
  `fixed` entries suppress nothing."""
  for f in findings:
    if f.get('status') != 'open':
      continue
    if f.get('property') != violation.get('property'):
      continue
    if f.get('oracle') and f['oracle'] != violation.get('oracle'):
      continue
    if _match_pred(f.get('match', {}), violation):
      return f
  return None
