"""Shared seeded generators: grids, vertical levels, admissible states, pad/trim.

All randomness comes from a `random.Random` (structure) or a
`numpy.random.RandomState(seed)` (array data) derived from the run seed.
"""
from __future__ import annotations

import functools
import random

import jax
import jax.numpy as jnp
import numpy as np

from dinosaur import coordinate_systems
from dinosaur import layer_coordinates
from dinosaur import primitive_equations
from dinosaur import shallow_water
from dinosaur import sigma_coordinates
from dinosaur import spherical_harmonic

FAST = spherical_harmonic.FastSphericalHarmonics
REAL = spherical_harmonic.RealSphericalHarmonics


# ----------------------------------------------------------------------------
# grids
# ----------------------------------------------------------------------------

def draw_grid_cfg(rng: random.Random, kmin=4, kmax=12, model=False) -> dict:
  """A horizontal discretisation. `model=True` restricts to grids on which the
  model equations are well defined (no nodes at the poles) and resolved."""
  r0 = rng.random()
  if r0 < 0.14:
    # "the number of wavenumbers and nodes is entirely flexible": a hand-built grid
    # with more total than longitudinal wavenumbers and its own node counts
    m = rng.randint(kmin, max(kmin, kmax - 2))
    l = m + rng.randint(1, 4)
    lon = 3 * m + 1 + rng.randint(0, 4)
    lat = -(-(3 * l + 1) // 2) + rng.randint(0, 3)
    cfg = {'kind': 'custom', 'k': m, 'L': l, 'lon': lon, 'lat': lat}
  elif r0 < 0.78:
    cfg = {'kind': 'with_wavenumbers', 'k': rng.randint(kmin, kmax),
           'dealiasing': rng.choice(['quadratic', 'quadratic', 'cubic'] if model
                                    else ['linear', 'quadratic', 'cubic'])}
  else:
    k = rng.randint(kmin, kmax)
    # construct(max_wavenumber, gaussian_nodes): nodes = 4g x 2g; need 4g >= k+1
    gmin = max(2, -(-(3 * k + 1) // 4)) if model else max(2, -(-(k + 2) // 4))
    cfg = {'kind': 'construct', 'k': k, 'g': rng.randint(gmin, gmin + 3)}
  if model:
    cfg['spacing'] = 'gauss' if rng.random() < 0.8 else 'equiangular'
  else:
    cfg['spacing'] = rng.choice(['gauss', 'gauss', 'equiangular',
                                 'equiangular_with_poles'])
  cfg['offset'] = rng.choice([0.0, 0.0, 0.1, np.pi / 7])
  cfg['radius'] = rng.choice([None, 1.0]) if model else rng.choice([None, 1.0, 2.5])
  return cfg


def build_grid(cfg: dict, impl, mesh=None) -> spherical_harmonic.Grid:
  kw = dict(latitude_spacing=cfg['spacing'], longitude_offset=cfg['offset'],
            radius=cfg['radius'], spherical_harmonics_impl=impl)
  if cfg['kind'] == 'with_wavenumbers':
    g = spherical_harmonic.Grid.with_wavenumbers(
        cfg['k'], dealiasing=cfg['dealiasing'], **kw)
  elif cfg['kind'] == 'custom':
    g = spherical_harmonic.Grid(
        longitude_wavenumbers=cfg['k'], total_wavenumbers=cfg['L'],
        longitude_nodes=cfg['lon'], latitude_nodes=cfg['lat'], **kw)
  else:
    g = spherical_harmonic.Grid.construct(cfg['k'], cfg['g'], **kw)
  if mesh is not None:
    import dataclasses
    g = dataclasses.replace(g, spmd_mesh=mesh)
  return g


def draw_knobs(rng: random.Random) -> dict:
  return {
      'base': rng.choice([None, None, 1, 2, 4, 8]),
      'stacked': rng.choice([None, True, False]),
      'reverse': rng.choice([None, True, False]),
      'precision': rng.choice(['tensorfloat32', 'float32', 'highest']),
  }


def fast_impl(knobs: dict | None):
  if not knobs:
    return FAST
  return functools.partial(
      FAST, base_shape_multiple=knobs.get('base'),
      stacked_fourier_transforms=knobs.get('stacked'),
      reverse_einsum_arg_order=knobs.get('reverse'),
      transform_precision=knobs.get('precision', 'tensorfloat32'))


REF_IMPL = functools.partial(FAST, base_shape_multiple=1)


def make_mesh(shape):
  """shape = [z, x, y] or [z, x, y, order] with order a permutation string of
  'zxy' giving the order in which the mesh axes are declared."""
  z, x, y = shape[:3]
  order = shape[3] if len(shape) > 3 else 'zxy'
  n = z * x * y
  devs = jax.devices()
  if n > len(devs):
    raise ValueError(f'mesh {shape} needs {n} devices, have {len(devs)}')
  sizes = {'z': z, 'x': x, 'y': y}
  return jax.sharding.Mesh(
      np.array(devs[:n]).reshape([sizes[a] for a in order]), tuple(order))


def mesh_shapes(max_devices: int, include_odd=True):
  out = []
  for z in range(1, max_devices + 1):
    for x in range(1, max_devices + 1):
      for y in range(1, max_devices + 1):
        if z * x * y <= max_devices:
          out.append((z, x, y))
  return out


# ----------------------------------------------------------------------------
# vertical
# ----------------------------------------------------------------------------

def draw_sigma_boundaries(rng: random.Random, layers: int, uneven=True):
  if not uneven or layers == 1:
    return np.linspace(0, 1, layers + 1).tolist()
  w = np.array([rng.uniform(0.5, 2.0) for _ in range(layers)])
  b = np.concatenate([[0.0], np.cumsum(w) / w.sum()])
  b[-1] = 1.0
  return [float(v) for v in b]


def draw_tref(rng: random.Random, layers: int, constant=False):
  """Reference temperature profile: warming downward, cooling downward,
  inversion (non-monotonic) or constant."""
  if constant:
    return [rng.choice([250.0, 288.0])] * layers
  kind = rng.choice(['warming', 'warming', 'cooling', 'inversion', 'noisy'])
  base = rng.uniform(210, 230)
  out = []
  for i in range(layers):
    f = (i + 0.5) / layers
    if kind == 'warming':
      t = base + (290 - base) * f + rng.uniform(-3, 3)
    elif kind == 'cooling':
      t = 290 - (290 - base) * f
    elif kind == 'inversion':
      t = base + 60 * abs(f - 0.5)
    else:
      t = rng.uniform(220, 290)
    out.append(float(t))
  return out


# ----------------------------------------------------------------------------
# pad / trim between the unpadded reference layout and a padded layout
# ----------------------------------------------------------------------------

def pad_to(x, shape2d):
  x = np.asarray(x)
  pads = [(0, 0)] * (x.ndim - 2) + [(0, shape2d[0] - x.shape[-2]),
                                    (0, shape2d[1] - x.shape[-1])]
  return np.pad(x, pads)


def trim_to(x, shape2d):
  return np.asarray(x)[..., :shape2d[0], :shape2d[1]]


def pad_tree(tree, shape2d):
  return jax.tree_util.tree_map(
      lambda a: pad_to(a, shape2d) if np.ndim(a) >= 2 else a, tree)


def trim_tree(tree, shape2d):
  return jax.tree_util.tree_map(
      lambda a: trim_to(a, shape2d) if np.ndim(a) >= 2 else np.asarray(a), tree)


# ----------------------------------------------------------------------------
# admissible spectral data
# ----------------------------------------------------------------------------

def random_modal(rs: np.random.RandomState, grid, prefix=(), amp=1.0,
                 decay=1.5, zero_mean=False, clip_top=True):
  """Random coefficients on `grid`'s own modal layout: masked, spectrally
  decaying, top total wavenumber clipped."""
  shape = tuple(prefix) + tuple(grid.modal_shape)
  _, l = grid.modal_mesh
  x = rs.standard_normal(shape)
  spec = amp / (1.0 + np.asarray(l, dtype=np.float64)) ** decay
  x = x * spec * grid.mask
  if clip_top:
    top = grid.total_wavenumbers - 1
    x = x * (np.asarray(l) < top)
  if zero_mean:
    x[..., 0, 0] = 0.0
  return x


def random_nodal(rs, grid_ref, prefix=()):
  """Smooth nodal data = synthesis of random admissible coefficients."""
  m = random_modal(rs, grid_ref, prefix)
  return np.asarray(grid_ref.to_nodal(jnp.asarray(m)))


def physics_specs():
  return primitive_equations.PrimitiveEquationsSpecs.from_si()


CONST_00 = 3.5449077018110318  # 2*sqrt(pi): (0,0) coefficient of the constant 1


def make_pe_state(rs, grid, layers, tracers=(), with_time=False, amp=1.0,
                  uniform_tracer=None):
  """An admissible primitive-equation state on `grid`'s layout."""
  vort = random_modal(rs, grid, (layers,), amp=0.6 * amp, decay=1.2, zero_mean=True)
  div = random_modal(rs, grid, (layers,), amp=0.15 * amp, decay=1.2, zero_mean=True)
  temp = random_modal(rs, grid, (layers,), amp=30.0 * amp, decay=1.5)
  lsp = random_modal(rs, grid, (1,), amp=0.08 * amp, decay=1.5)
  lsp[..., 0, 0] = np.log(1e5 / 1.0) * 0 + 11.5 * CONST_00 * 0 + lsp[..., 0, 0]
  tr = {}
  for name in tracers:
    q = random_modal(rs, grid, (layers,), amp=2e-3 * amp, decay=1.5)
    q[..., 0, 0] = 5e-3 * CONST_00 + q[..., 0, 0] * 0.1
    tr[name] = q
  if uniform_tracer is not None:
    name, value = uniform_tracer
    u = np.zeros((layers,) + tuple(grid.modal_shape))
    u[..., 0, 0] = value * CONST_00
    tr[name] = u
  if with_time:
    return primitive_equations.StateWithTime(vort, div, temp, lsp, 0.0, tr)
  return primitive_equations.State(vort, div, temp, lsp, tr)


def make_sw_state(rs, grid, layers, amp=1.0):
  vort = random_modal(rs, grid, (layers,), amp=0.5 * amp, decay=1.2, zero_mean=True)
  div = random_modal(rs, grid, (layers,), amp=0.1 * amp, decay=1.2, zero_mean=True)
  pot = random_modal(rs, grid, (layers,), amp=0.05 * amp, decay=1.5)
  return shallow_water.State(vort, div, pot)


def random_orography(rs, grid, height=0.0):
  """Modal orography (nondimensional length), top wavenumber clipped."""
  if height == 0.0:
    return np.zeros(grid.modal_shape)
  return random_modal(rs, grid, (), amp=height, decay=2.0)
