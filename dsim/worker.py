"""Worker process: runs a batch of simulated runs of one engine.

Invoked as a script (never `python -m`): worker.py <job.json>
The job file says which engine, which (index, seed) pairs, tier and options;
results are appended as JSON lines to job['out'].
"""
import faulthandler
import importlib
import json
import os
import sys
import time
import traceback

ENGINES = {'K': 'dsim.comb', 'X': 'dsim.xmesh', 'S': 'dsim.spmd_engine',
           'R': 'dsim.run'}


def main():
  job_path = sys.argv[1]
  with open(job_path) as f:
    job = json.load(f)
  faulthandler.enable()
  faulthandler.dump_traceback_later(job.get('timeout', 3000), exit=True)
  sys.path.insert(0, os.path.dirname(os.path.dirname(os.path.abspath(__file__))))
  repo = job.get('repo')
  if repo:
    # run against an alternative checkout (sensitivity self-test on a scratch copy)
    sys.path.insert(0, repo)

  import jax
  jax.config.update('jax_enable_x64', bool(job.get('x64', True)))
  import dinosaur  # noqa: F401
  if repo:
    assert os.path.abspath(dinosaur.__file__).startswith(os.path.abspath(repo)), dinosaur.__file__

  mod = importlib.import_module(ENGINES[job['engine']])
  out = open(job['out'], 'a')
  out.write(json.dumps({'meta': True, 'pid': os.getpid(),
                        'dinosaur': os.path.dirname(dinosaur.__file__),
                        'devices': len(jax.devices()),
                        'hashseed': os.environ.get('PYTHONHASHSEED')}) + '\n')
  out.flush()
  mode = job.get('mode', 'run')
  if mode == 'replay':
    t0 = time.time()
    try:
      res = mod.replay(job['replay'], job.get('opts', {}))
    except Exception:
      res = {'harness_error': traceback.format_exc()}
    res['wall'] = time.time() - t0
    out.write(json.dumps(res, default=str) + '\n')
    out.flush()
    return
  for idx, seed in job['seeds']:
    t0 = time.time()
    if os.path.exists('VIOLATION_FOUND') and job.get('stop_on_violation', True):
      # another run of this check already produced a (minimised) violation:
      # the verdict is decided, do not spend the budget on more of the same
      out.write(json.dumps({'skipped': True, 'index': idx, 'seed': seed}) + '\n')
      out.flush()
      continue
    try:
      res = mod.run_one(seed, job['tier'], job.get('opts', {}), job['property'])
    except Exception:
      res = {'harness_error': traceback.format_exc()}
    res['index'] = idx
    res['seed'] = seed
    res['wall'] = time.time() - t0
    if res.get('violations'):
      open('VIOLATION_FOUND', 'a').close()
    out.write(json.dumps(res, default=str) + '\n')
    out.flush()
  out.write(json.dumps({'done': True}) + '\n')
  out.close()


if __name__ == '__main__':
  main()
