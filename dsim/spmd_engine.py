"""Engine S: C07 workloads executed on the deterministic SPMD simulator.

Same seeded workload family as engine X (dsim.xmesh op builders), but every
shard_map region runs under `dsim.spmd.Simulator`: a seeded scheduler owns
device stepping and message delivery and injects delay / reorder / stall /
duplicate faults. Not limited by the host device count (AbstractMesh).
"""
from __future__ import annotations

import copy
import random
import traceback

import jax
import jax.numpy as jnp
import numpy as np

from dsim import gen
from dsim import kernel
from dsim import spmd
from dsim import xmesh

MAX_MINIMISED_PER_RUN = 2
PROP = 'C07'


def abstract_mesh(shape):
  order = shape[3] if len(shape) > 3 else 'zxy'
  sizes = dict(zip('zxy', (int(s) for s in shape[:3])))
  return jax.sharding.AbstractMesh(tuple(sizes[a] for a in order), tuple(order))


RING_SIZES = [1, 1, 2, 2, 2, 4, 4, 6, 8, 3, 5, 10, 12, 16]


def draw_mesh(rng: random.Random, max_devices: int, model: bool):
  for _ in range(200):
    z = rng.choice([1, 1, 2, 2, 3, 4])
    x = rng.choice(RING_SIZES)
    y = rng.choice(RING_SIZES)
    if model and any(a > 1 and a % 2 for a in (x, y)):
      continue
    n = z * x * y
    if n == 1 and rng.random() < 0.9:
      continue
    if n <= max_devices:
      return [z, x, y]
  return [1, 2, 2]


def draw_config(rng: random.Random, opts) -> dict:
  model = rng.random() < float(opts.get('p_model', 0.2))
  max_dev = int(opts.get('max_devices_model', 8) if model else opts.get('max_devices', 32))
  mesh = draw_mesh(rng, max_dev, model)
  kmax = int(opts.get('kmax', 10))
  grid = gen.draw_grid_cfg(rng, 4, 6 if model else kmax, model=model)
  knobs = gen.draw_knobs(rng)
  # keep padded sizes tractable on big rings: base multiple small unless mesh is small
  if mesh[1] * mesh[2] > 8 and knobs['base'] in (None, 8, 4):
    knobs['base'] = rng.choice([1, 2])
  z = mesh[0]
  if model:
    layers = z * rng.randint(1, max(1, 4 // z))
    if layers == 1:
      layers = 2 if z == 1 else z
  else:
    layers = rng.randint(2, 6)
  return {'mesh': mesh,
          'mesh_order': rng.choice(['zxy', 'zxy', 'zxy', 'xyz', 'yxz', 'xzy', 'zyx', 'yzx']),
          'grid': grid, 'knobs': knobs, 'model': model,
          'layers': layers,
          'sigma': gen.draw_sigma_boundaries(rng, layers, uneven=rng.random() < 0.75),
          'tref': gen.draw_tref(rng, layers, constant=rng.random() < 0.3),
          'oro': rng.choice([0.0, 300.0]),
          'state_seed': rng.randrange(1 << 30)}


def draw_faults(rng: random.Random) -> dict:
  """Swarm: a random subset of fault kinds per run, tuned so most steps make progress."""
  f = dict(spmd.DEFAULT_FAULTS)
  if rng.random() < 0.7:
    f['p_delay'] = rng.choice([0.05, 0.2, 0.5])
    f['max_delay'] = rng.choice([3, 20, 200])
  if rng.random() < 0.5:
    f['p_stall'] = rng.choice([0.01, 0.03])
    f['max_stall'] = rng.choice([5, 50, 400])
  if rng.random() < 0.5:
    f['p_dup'] = rng.choice([0.02, 0.1])
  return f


def draw_ops(rng, cfg, n_ops):
  ops = xmesh.draw_ops(rng, cfg, n_ops)
  out = []
  for op in ops:
    if op['op'] in ('step', 'step_filters'):
      op['nsteps'] = 1
      if op['op'] == 'step':
        op['integrator'] = rng.choice(['backward_forward_euler', 'crank_nicolson_rk2',
                                       'imex_rk_sil3'])
    out.append(op)
  return out


def run_sharded(fs, sh_in, chooser, faults):
  sim = spmd.Simulator(chooser, faults)
  # eager execution: python scalars must be arrays (under jit they would be tracers)
  sh_in = jax.tree_util.tree_map(jnp.asarray, sh_in)
  with sim.installed():
    out = fs(*sh_in)
    out = jax.tree_util.tree_map(np.asarray, out)
  return out, sim


def exec_op(world, op, log, sched_seed, faults, recorded=None):
  fr, fs, inputs, out_kind, expect_reject = xmesh.build_op(world, op)
  ref_in = [t for _, t in inputs]
  sh_in = [xmesh._lay(world, k, t) for k, t in inputs]
  ref_out = xmesh._trim(world, 'plain', jax.jit(fr)(*ref_in))
  viols = []
  info = {'outcome': None, 'label': None, 'stats': None, 'choices': None}
  def viol(oracle, msg, **kw):
    viols.append(kernel.make_violation(PROP, oracle, msg, op=op,
                                       sig=xmesh.sig_for(world.cfg, op), **kw))
  if recorded is not None:
    chooser = spmd.Chooser(recorded=recorded)
  else:
    chooser = spmd.Chooser(rng=random.Random(sched_seed))
  try:
    out_a, sim_a = run_sharded(fs, sh_in, chooser, faults)
  except spmd.Unsupported as e:
    log.emit('op', op=op, outcome='uninterpreted', why=str(e)[:200])
    info['outcome'] = 'uninterpreted'
    return viols, info
  except spmd.SimViolation as e:
    log.emit('op', op=op, outcome='sim-violation', oracle=e.oracle)
    viol(e.oracle, e.message)
    info['outcome'] = 'differs'
    info['choices'] = chooser.log
    return viols, info
  except Exception as e:  # pylint: disable=broad-except
    label = xmesh.classify_rejection(world, op, e, expect_reject)
    log.emit('op', op=op, outcome='rejected' if label else 'crash', label=label,
             exc=type(e).__name__)
    if label is None:
      viol('S-OUTCOME', f'simulated sharded execution raised outside the documented '
           f'rejections: {type(e).__name__}: {str(e)[:300]}',
           traceback=traceback.format_exc()[-1500:])
    info['outcome'] = 'rejected'
    info['label'] = label
    return viols, info
  info['choices'] = chooser.log
  # schedule independence: canonical fault-free schedule must give identical bits
  try:
    out_b, sim_b = run_sharded(fs, sh_in, spmd.CanonicalChooser(), None)
    same = kernel.tree_hash(out_a) == kernel.tree_hash(out_b)
  except Exception as e:  # pylint: disable=broad-except
    same = False
    viol('S-SCHED', f'canonical schedule failed where the seeded schedule succeeded: '
         f'{type(e).__name__}: {str(e)[:200]}')
    sim_b = None
  if not same and sim_b is not None:
    viol('S-SCHED', 'result bits depend on the delivery / stepping schedule')
  for oracle, msg in sim_a.violations:
    viol(oracle, msg)
  sh_out = xmesh._trim(world, out_kind, out_a)
  ok, err, where, smsg = xmesh.compare_trees(ref_out, sh_out, xmesh._in_scale(inputs))
  if not ok:
    viol('S-REFINE', smsg or f'simulated sharded result differs from unsharded after '
         f'removing padding: max rel err {err:.3e} (tol {xmesh.RTOL}) at leaf {where}',
         max_rel=err, leaf=where)
  if not xmesh._all_finite(out_a):
    viol('S-FINITE', 'simulated sharded output (padding included) contains non-finite values')
  st = sim_a.stats
  log.emit('op', op=op, outcome='equal' if ok else 'differs',
           out=kernel.tree_hash(sh_out), regions=st['regions'], messages=st['messages'],
           steps=st['steps'], sched=kernel.sha(chooser.log)[:12])
  info['outcome'] = 'equal' if not viols else 'differs'
  info['stats'] = st
  return viols, info


def execute(cfg, ops, faults, sched_seeds, recorded=None):
  log = kernel.EventLog()
  log.emit('config', cfg=cfg, faults=faults)
  world = xmesh.get_world(cfg, abstract_mesh)
  viols = []
  agg = {'equal': 0, 'differs': 0, 'uninterpreted': 0, 'rejected': {}, 'ops': {},
         'regions': 0, 'messages': 0, 'steps': 0, 'collectives': 0, 'faults': {},
         'replica_checks': 0}
  choices = []
  for i, op in enumerate(ops):
    rec = None if recorded is None else recorded[i]
    try:
      vs, info = exec_op(world, op, log, sched_seeds[i], faults, rec)
    except Exception as e:
      raise RuntimeError(f'op {i} {op} failed in the harness/reference world: '
                         f'{type(e).__name__}: {e}') from e
    for v in vs:
      v['op_index'] = i
    viols.extend(vs)
    choices.append(info['choices'])
    agg['ops'][op['op']] = agg['ops'].get(op['op'], 0) + 1
    o = info['outcome']
    if o == 'rejected':
      lab = info['label'] or 'crash'
      agg['rejected'][lab] = agg['rejected'].get(lab, 0) + 1
    else:
      agg[o] += 1
    st = info['stats']
    if st:
      for k in ('regions', 'messages', 'steps', 'collectives', 'replica_checks'):
        agg[k] += st[k]
      for k, v in st['faults'].items():
        agg['faults'][k] = agg['faults'].get(k, 0) + v
  return log, viols, agg, choices


def candidates(case):
  # first: faults off + canonical schedule (smallest schedule/fault trace)
  if case.get('faults') != spmd.DEFAULT_FAULTS:
    c = copy.deepcopy(case)
    c['faults'] = dict(spmd.DEFAULT_FAULTS)
    yield c
  for sub in xmesh.candidates({'config': case['config'], 'ops': case['ops']}):
    if len(sub['ops']) != len(case['ops']):
      # keep schedule seeds aligned with the surviving ops
      idx = [case['ops'].index(o) if o in case['ops'] else 0 for o in sub['ops']]
      seeds = [case['sched_seeds'][i] for i in idx]
    else:
      seeds = case['sched_seeds']
    m = sub['config']['mesh']
    if m and (m[0] * m[1] * m[2] > 64):
      continue
    yield {'config': sub['config'], 'ops': sub['ops'], 'faults': case['faults'],
           'sched_seeds': seeds}


def minimise(case, oracle):
  def still_fails(c):
    _, vs, _, _ = execute(c['config'], c['ops'], c['faults'], c['sched_seeds'])
    return any(v['oracle'] == oracle for v in vs)
  return kernel.greedy_shrink(case, candidates, still_fails, max_evals=30,
                              max_seconds=150)


def run_one(seed, tier, opts, prop):
  rng = kernel.sub_rng(seed, 'S')
  cfg = draw_config(rng, opts)
  faults = draw_faults(rng)
  ops = draw_ops(rng, cfg, int(opts.get('ops', 6)))
  sched_seeds = [rng.randrange(1 << 30) for _ in ops]
  log, viols, agg, choices = execute(cfg, ops, faults, sched_seeds)
  out_v = []
  seen = set()
  for v in viols:
    key = (v['oracle'], v['op']['op'])
    if key in seen:
      continue
    seen.add(key)
    i = v['op_index']
    case = {'config': cfg, 'ops': [ops[i]], 'faults': faults,
            'sched_seeds': [sched_seeds[i]]}
    mini, evals = (minimise(case, v['oracle'])
                   if len(out_v) < (1 if kernel.violation_flag_set() else MAX_MINIMISED_PER_RUN)
                   else (case, 0))
    mlog, mv, _, mchoices = execute(mini['config'], mini['ops'], mini['faults'],
                                    mini['sched_seeds'])
    mv = [x for x in mv if x['oracle'] == v['oracle']] or [v]
    rep = {'version': 1, 'property': PROP, 'engine': 'S', 'run_seed': seed,
           'x64': True, 'config': mini['config'], 'ops': mini['ops'],
           'faults': mini['faults'], 'sched_seeds': mini['sched_seeds'],
           'choices': [c[:20000] if c else c for c in mchoices],
           'violation': {'property': PROP, 'oracle': v['oracle'],
                         'message': mv[0]['message'], 'sig': mv[0].get('sig')},
           'digest': mlog.digest(),
           'minimised_from': {'config': cfg, 'ops': len(ops), 'faults': faults,
                              'shrink_evaluations': evals}}
    path = kernel.write_replay(rep, f"{seed}-{v['oracle']}-{v['op']['op']}")
    vv = {k: mv[0][k] for k in ('property', 'oracle', 'message', 'sig') if k in mv[0]}
    vv['replay'] = path
    out_v.append(vv)
  mesh = cfg['mesh']
  n_dev = mesh[0] * mesh[1] * mesh[2]
  probes = {
      'mesh_devices_gt_8': int(n_dev > 8),
      'mesh_devices_gt_16': int(n_dev > 16),
      'ring_axis_ge_4': int(max(mesh[1:]) >= 4),
      'ring_axis_non_power_of_two(6,10,12)': int(any(a in (6, 10, 12) for a in mesh[1:])),
      'odd_ring_axis_generated': int(any(a > 1 and a % 2 for a in mesh[1:])),
      'z_not_dividing_levels_path': sum(
          1 for o in ops if o.get('field') == '3d' and o.get('levels', 0) % mesh[0]),
      'tuple_axis_cumsum': sum(1 for o in ops if o['op'] == 'cumsum'
                               and o['spec'] in ('physics', 'zx')),
      'model_tendency_or_step': sum(1 for o in ops if o['op'] in xmesh.MODEL_OPS),
  }
  nontrivial = agg['equal'] + agg['differs'] > 0 and agg['messages'] > 0
  return {
      'digest': log.digest(),
      'sigs': sorted({kernel.sha(['S', cfg['mesh'], cfg['grid'], cfg['knobs'],
                                  {k: v for k, v in o.items() if k != 'ds'}])[:12]
                      for o in ops}) if nontrivial else [],
      'nontrivial': nontrivial,
      'cover': {'s_ops_equal': agg['equal'], 's_ops_differ': agg['differs'],
                's_ops_rejected': agg['rejected'], 's_uninterpreted': agg['uninterpreted'],
                's_op_kinds': agg['ops'], 's_shard_map_regions': agg['regions'],
                's_messages': agg['messages'], 's_scheduler_steps': agg['steps'],
                's_collective_instances': agg['collectives'],
                's_replica_checks': agg['replica_checks'],
                's_faults_fired': agg['faults'],
                's_distinct_schedules': len({kernel.sha(c)[:12] for c in choices if c}),
                's_probes': probes},
      'violations': out_v,
      'sample': {'config': cfg, 'faults': faults, 'ops': ops[:2],
                 'schedule_head': (choices[0] or [])[:40] if choices else []},
  }


def replay(rep, opts):
  log, viols, _, _ = execute(rep['config'], rep['ops'], rep['faults'],
                             rep['sched_seeds'], recorded=rep.get('choices'))
  out = [{k: v[k] for k in ('property', 'oracle', 'message', 'sig') if k in v}
         for v in viols]
  return {'digest': log.digest(), 'violations': out}
