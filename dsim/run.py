"""Engine R: model-run simulator (C11, C19, and the real-model legs of C14 / C07).

The system under test (SUT) is a model run as a user deploys it: equation set,
integrator, filter stack, carried state (with or without sim_time), layout /
device mesh, compile cache and a checkpoint store. A seeded sequence of
operations and injected events drives it (ADVANCE through the real combinators,
FILTER_ONLY, IMPLICIT_SOLVE_ONLY, RECONFIGURE, CHECKPOINT, CRASH_RESTART from
durable bytes only, RECOMPILE, RESHARD, CODEC, UPSAMPLE). The reference world is
the same configuration advanced by a plain python loop, one jitted step at a
time, on one device, unpadded, never restarted or resharded.

Every oracle carries the id of the property it belongs to; a run executed for
property P reports only P-tagged failures. A failure of another property's
oracle makes the run inconclusive for P from that event on (DESIGN 7a).
"""
from __future__ import annotations

import copy
import dataclasses
import functools
import io
import math
import random
import traceback

import fsspec
import jax
import jax.numpy as jnp
import numpy as np
import xarray

from dinosaur import coordinate_systems
from dinosaur import filtering
from dinosaur import layer_coordinates
from dinosaur import primitive_equations
from dinosaur import pytree_utils
from dinosaur import scales
from dinosaur import shallow_water
from dinosaur import sigma_coordinates
from dinosaur import spherical_harmonic
from dinosaur import time_integration as ti
from dinosaur import vertical_interpolation
from dinosaur import xarray_utils

from dsim import comb
from dsim import gen
from dsim import kernel

RTOL = 1e-9
MAX_MINIMISED_PER_RUN = 2
PE_FAMILIES = ('dry', 'time', 'moist', 'cloud')
INTEGRATORS = ['backward_forward_euler', 'crank_nicolson_rk2', 'crank_nicolson_rk3',
               'crank_nicolson_rk4', 'imex_rk_sil3', 'semi_implicit_leapfrog',
               'ars232', 'ars222', 'imex_midpoint']

_G = 1 - 1 / math.sqrt(2)
_D = -2 * math.sqrt(2) / 3
_D2 = 1 - 1 / (2 * _G)
# user-supplied Butcher tableaux run through the library's generic imex_runge_kutta
TABLEAUX = {
    # Ascher, Ruuth & Spiteri (1997) ARS(2,3,2)
    'ars232': dict(a_ex=[[_G], [_D, 1 - _D]], a_im=[[0, _G], [0, 1 - _G, _G]],
                   b_ex=[0, 1 - _G, _G], b_im=[0, 1 - _G, _G]),
    # ARS(2,2,2)
    'ars222': dict(a_ex=[[_G], [_D2, 1 - _D2]], a_im=[[0, _G], [0, 1 - _G, _G]],
                   b_ex=[_D2, 1 - _D2, 0], b_im=[0, 1 - _G, _G]),
    # implicit-explicit midpoint (1,2,2)
    'imex_midpoint': dict(a_ex=[[1 / 2]], a_im=[[0, 1 / 2]], b_ex=[0, 1], b_im=[0, 1]),
}


def get_integrator(name):
  if name in TABLEAUX:
    tab = ti.ImExButcherTableau(**TABLEAUX[name])
    return functools.partial(ti.imex_runge_kutta, tab)
  return getattr(ti, name)
IMPLS = {'real': 'RealSphericalHarmonics', 'fast': 'FastSphericalHarmonics',
         'fastz': 'RealSphericalHarmonicsWithZeroImag'}


class Inconclusive(Exception):
  """The run left the comparable regime for a reason outside property P."""


# ----------------------------------------------------------------------------
# job (durable configuration) generation
# ----------------------------------------------------------------------------

def draw_job(rng: random.Random, prop: str, opts) -> dict:
  fam_w = {'C11': ['dry', 'time', 'moist', 'moist', 'cloud', 'sw'],
           'C14': ['dry', 'time', 'time', 'moist', 'sw'],
           'C19': ['dry', 'time', 'moist', 'cloud', 'sw'],
           'C07': ['dry', 'time', 'moist']}[prop]
  family = rng.choice(fam_w)
  impl = rng.choice(['fast', 'fast', 'real', 'fastz'])
  if prop == 'C07':
    impl = 'fast'
  grid = gen.draw_grid_cfg(rng, 4, int(opts.get('kmax', 8)), model=True)
  grid['spacing'] = 'gauss'
  if family == 'sw':
    layers = rng.randint(1, 3)
  else:
    layers = rng.choice([1, 2, 2, 3, 4, 4] + ([5, 6, 8] if int(opts.get('max_layers', 4)) > 4
                                               else []))
  integrator = rng.choice(INTEGRATORS)
  if opts.get('light'):
    # compile-light configurations (the C14 leg compiles one program per split)
    family = rng.choice(['dry', 'time', 'sw'])
    layers = min(layers, 2)
    integrator = rng.choice(['backward_forward_euler', 'crank_nicolson_rk2',
                             'imex_rk_sil3', 'semi_implicit_leapfrog'])
  job = {
      'family': family, 'impl': impl, 'grid': grid, 'layers': layers,
      'sigma': gen.draw_sigma_boundaries(rng, layers, uneven=rng.random() < 0.8),
      'tref': gen.draw_tref(rng, layers, constant=rng.random() < 0.3),
      'oro': rng.choice([0.0, 0.0, 400.0, 1500.0]),
      'seed': rng.randrange(1 << 30),
      'integrator': integrator,
      'dt': rng.choice([0.0875, 0.13, 0.175]),
      'filters': draw_filters(rng, integrator),
      'vmethod': rng.choice([None, None, 'dense', 'sparse']),
      'extra_tracers': rng.sample(['q', 'aerosol', 'tke', 'tr_1'],
                                  0 if opts.get('light') else rng.randint(0, 2)),
      'amp': rng.choice([0.3, 0.6, 1.0]),
      'sw_dens': [float(0.9 ** (layers - 1 - i)) for i in range(layers)],
      'sw_phi': [rng.uniform(0.05, 0.15) for _ in range(layers)],
  }
  # some runs live on a padded modal layout from the start (structural zeros in
  # the padding are then monitored on every state of the run)
  # the carried clock does not have to start at zero (a run continued from an
  # earlier one): per-step advance must still be dt
  job['t0'] = rng.choice([0.0, 0.0, 3.5, 250.0])
  job['long'] = rng.random() < float(opts.get('p_long', 0.0))
  if job['long']:
    # long histories: gentle amplitude and at least one scale-selective filter so
    # that the run stays physically stable for ~150 steps
    job['amp'] = 0.3
    if not any(f['kind'] in ('exp', 'hdiff') for f in job['filters']):
      job['filters'].insert(0, {'kind': 'exp', 'order': 6, 'cutoff': 0, 'tau': 0.010938})
  job['oro_unclipped'] = rng.random() < 0.5
  # non-default equation flag (no vertical advection terms)
  job['vadv'] = rng.random() >= 0.2
  job['layout0'] = {}
  if prop in ('C11', 'C07') and impl != 'real' and rng.random() < 0.4:
    job['layout0'] = {'base': rng.choice([2, 4, 8])}
  return job


def draw_filters(rng, integrator):
  n = rng.choice([0, 1, 1, 2, 2, 3])
  out = []
  for _ in range(n):
    kind = rng.choice(['exp', 'exp', 'hdiff'])
    if kind == 'exp':
      out.append({'kind': 'exp', 'order': rng.choice([1, 2, 6, 18]),
                  'cutoff': rng.choice([0, 0, 0.3, 0.6]),
                  'tau': rng.choice([0.010938, 0.05])})
    else:
      out.append({'kind': 'hdiff', 'order': rng.choice([1, 2, 3]),
                  'tau': rng.choice([0.2, 1.0])})
  if integrator == 'semi_implicit_leapfrog' and rng.random() < 0.8:
    out.append({'kind': 'ra', 'r': rng.choice([0.02, 0.05, 0.1])})
  return out


# ----------------------------------------------------------------------------
# builders
# ----------------------------------------------------------------------------

def impl_for(job, layout):
  cls = xarray_utils.GRID_REGISTRY[IMPLS[job['impl']]]
  base = layout.get('base')
  if base and job['impl'] != 'real':
    return functools.partial(cls, base_shape_multiple=base)
  return cls


def build_coords(job, layout):
  mesh = gen.make_mesh(layout['mesh']) if layout.get('mesh') else None
  grid = gen.build_grid(job['grid'], impl_for(job, layout))
  if job['family'] == 'sw':
    vertical = layer_coordinates.LayerCoordinates(job['layers'])
  else:
    vertical = sigma_coordinates.SigmaCoordinates(np.asarray(job['sigma']))
  return coordinate_systems.CoordinateSystem(grid, vertical, spmd_mesh=mesh)


def limits(coords):
  g = coords.horizontal
  rows = 2 * g.longitude_wavenumbers - (1 if g.modal_padding == (0, 0) and
                                        g.modal_shape[0] % 2 else 0)
  sh = g.spherical_harmonics
  if isinstance(sh, spherical_harmonic.FastSphericalHarmonics):
    rows = 2 * g.longitude_wavenumbers
  else:
    rows = 2 * g.longitude_wavenumbers - 1
  return rows, g.total_wavenumbers


def build_equation(job, coords, oro_ref):
  """oro_ref: modal orography on the unpadded layout of this impl."""
  oro = gen.pad_to(oro_ref, coords.horizontal.modal_shape)
  if job['family'] == 'sw':
    specs = shallow_water.ShallowWaterSpecs.from_si(
        np.asarray(job['sw_dens']) * scales.WATER_DENSITY)
    return shallow_water.ShallowWaterEquations(
        coords, specs, oro if job['oro'] else None, np.asarray(job['sw_phi']))
  specs = gen.physics_specs()
  cls = {'dry': primitive_equations.PrimitiveEquations,
         'time': primitive_equations.PrimitiveEquationsWithTime,
         'moist': primitive_equations.MoistPrimitiveEquations,
         'cloud': primitive_equations.MoistPrimitiveEquationsWithCloudMoisture}[job['family']]
  return cls(np.asarray(job['tref']), oro, coords, specs,
             vertical_matmul_method=job['vmethod'],
             include_vertical_advection=bool(job.get('vadv', True)))


def build_filters(job, grid):
  leap = job['integrator'] == 'semi_implicit_leapfrog'
  out = []
  for f in job['filters']:
    if f['kind'] == 'exp':
      mk = ti.exponential_leapfrog_step_filter if leap else ti.exponential_step_filter
      out.append(mk(grid, job['dt'], tau=f['tau'], order=f['order'], cutoff=f['cutoff']))
    elif f['kind'] == 'hdiff':
      flt = ti.horizontal_diffusion_step_filter(grid, job['dt'], tau=f['tau'], order=f['order'])
      if leap:
        # horizontal_diffusion_step_filter is a Runge-Kutta style filter; wrap its
        # state filter for leapfrog pairs the way the library's leapfrog filters do
        eig_scale = job['dt'] / (f['tau'] * abs(grid.laplacian_eigenvalues).max() ** f['order'])
        flt = ti.leapfrog_step_filter(
            filtering.horizontal_diffusion_filter(grid, eig_scale, f['order']))
      out.append(flt)
    elif f['kind'] == 'ra':
      out.append(ti.robert_asselin_leapfrog_filter(f['r']))
  return out


def build_step(job, coords, eq):
  integ = get_integrator(job['integrator'])
  return ti.step_with_filters(integ(eq, job['dt']), build_filters(job, coords.horizontal))


def tracer_names(job):
  names = list(job['extra_tracers'])
  if job['family'] in ('moist', 'cloud'):
    names.append('specific_humidity')
  if job['family'] == 'cloud':
    names += ['specific_cloud_liquid_water_content', 'specific_cloud_ice_water_content']
  return names


def initial_state(job, coords, ref_eq):
  """Admissible initial state on the (unpadded) reference layout."""
  rs = np.random.RandomState(job['seed'])
  g = coords.horizontal
  L = job['layers']
  if job['family'] == 'sw':
    st = gen.make_sw_state(rs, g, L, amp=job['amp'])
  else:
    st = gen.make_pe_state(rs, g, L, tracers=tracer_names(job),
                           with_time=job['family'] != 'dry', amp=job['amp'],
                           uniform_tracer=('uniform', 1.75))
    if job['family'] == 'cloud':
      for nm in ('specific_cloud_liquid_water_content', 'specific_cloud_ice_water_content'):
        st.tracers[nm] = st.tracers[nm] * 0.05
    if job['family'] != 'dry' and job.get('t0'):
      st.sim_time = float(job['t0'])
  st = jax.tree_util.tree_map(jnp.asarray, st)
  if job['integrator'] == 'semi_implicit_leapfrog':
    first = jax.jit(ti.backward_forward_euler(ref_eq, job['dt']))(st)
    return (st, first)
  return st


# ----------------------------------------------------------------------------
# canonical (layout independent) view of a state and comparisons
# ----------------------------------------------------------------------------

def named_leaves(state, prefix=''):
  if isinstance(state, tuple) and not hasattr(state, 'asdict'):
    out = []
    for i, s in enumerate(state):
      out += named_leaves(s, f'{prefix}t{i}.')
    return out
  d = state.asdict() if hasattr(state, 'asdict') else state
  out = []
  for k in sorted(d):
    v = d[k]
    if isinstance(v, dict):
      for kk in sorted(v):
        out.append((f'{prefix}{k}/{kk}', v[kk]))
    else:
      out.append((f'{prefix}{k}', v))
  return out


def canon(state, coords):
  rows, cols = limits(coords)
  out = {}
  for name, v in named_leaves(state):
    a = np.asarray(v)
    if a.ndim >= 2:
      a = a[..., :rows, :cols]
    out[name] = a
  return out


def _rtol():
  # float32 legs (jax_enable_x64 off) exist for the bitwise persistence oracles;
  # scan-vs-loop rounding differences there are ~1e-6 and grow with the step
  # count, so value refinement is only a coarse sanity bound in that mode
  return RTOL if jax.config.jax_enable_x64 else 5e-2


def compare_canon(ref, got, dt, rtol=None):
  if rtol is None:
    rtol = _rtol()
  if sorted(ref) != sorted(got):
    return False, f'leaf names differ: {sorted(ref)} vs {sorted(got)}', float('inf')
  worst, where = 0.0, None
  for k in sorted(ref):
    a, b = np.asarray(ref[k], np.float64), np.asarray(got[k], np.float64)
    if a.shape != b.shape:
      return False, f'{k}: shape {b.shape} != reference {a.shape}', float('inf')
    if not np.isfinite(b).all():
      return False, f'{k}: non-finite values', float('inf')
    if k.endswith('sim_time'):
      err = float(np.max(np.abs(a - b))) / max(abs(dt), 1e-300)
    else:
      scale = max(float(np.max(np.abs(a))) if a.size else 0.0, 1e-12)
      err = float(np.max(np.abs(a - b))) / scale if a.size else 0.0
    if err > worst:
      worst, where = err, k
  return worst <= rtol, f'max rel err {worst:.3e} at {where}', worst


def bits_equal(a: dict, b: dict):
  if sorted(a) != sorted(b):
    return False, f'keys differ: {sorted(a)} vs {sorted(b)}'
  for k in sorted(a):
    x, y = np.asarray(a[k]), np.asarray(b[k])
    if x.shape != y.shape:
      return False, f'{k}: shape {y.shape} != {x.shape}'
    if x.dtype != y.dtype:
      return False, f'{k}: dtype {y.dtype} != {x.dtype}'
    if not np.array_equal(x, y, equal_nan=True):
      return False, f'{k}: values differ (max abs {np.max(np.abs(x - y)):.3e})'
  return True, ''


# ----------------------------------------------------------------------------
# invariant monitors (C11)
# ----------------------------------------------------------------------------

class Monitor:
  def __init__(self, job, state0, coords0):
    self.job = job
    c0 = canon(state0, coords0)
    self.init = {}
    self.scale = {}
    for k, a in c0.items():
      if a.ndim >= 2:
        self.init[k] = np.array(a[..., 0, 0], dtype=np.float64)
        self.scale[k] = max(float(np.max(np.abs(a))), 1e-12)
    self.growth_ref = max(self.scale.values())

  def check(self, state, coords, n_steps, t_expected, dt, world):
    """Returns list of (oracle, message); raises Inconclusive on blow-up."""
    out = []
    g = coords.horizontal
    mask = np.asarray(g.mask)
    top = g.total_wavenumbers - 1
    n = max(n_steps, 1)
    if not jax.config.jax_enable_x64:
      n = n * 1e7   # float32 leg: only exact (I1) and finiteness (I5) oracles are sharp
    peak = 0.0
    nonfinite = None
    for name, v in named_leaves(state):
      a = np.asarray(v)
      if not np.isfinite(a).all():
        nonfinite = name
        continue
      if a.ndim >= 2 and a.shape[-2:] == tuple(g.modal_shape):
        peak = max(peak, float(np.max(np.abs(a))) / self.scale.get(name.split('.')[-1] if False else name, 1.0)
                   if name in self.scale else 0.0)
        # I1: structural zeros exactly zero
        outside = a[..., ~mask]
        if outside.size and np.any(outside != 0):
          out.append(('R-I1', f'{world}: {name}: {int(np.count_nonzero(outside))} entries '
                      f'outside the triangular truncation / padding are non-zero '
                      f'(max {np.max(np.abs(outside)):.3e}) after {n_steps} steps'))
        if np.any(a[..., :, top] != 0):
          out.append(('R-I1', f'{world}: {name}: clipped top total wavenumber is non-zero '
                      f'(max {np.max(np.abs(a[..., :, top])):.3e}) after {n_steps} steps'))
        base = name.split('.')[-1]
        key = name if name in self.init else None
        if key is None:
          for k in self.init:
            if k.split('.')[-1] == base:
              key = k
              break
        if key is not None:
          sc = self.scale[key]
          if base in ('vorticity', 'divergence') or (self.job['family'] == 'sw' and base == 'potential'):
            d = float(np.max(np.abs(a[..., 0, 0] - self.init[key])))
            if d > n * 1e-12 * sc:
              out.append(('R-I2', f'{world}: global mean ((0,0) coefficient) of {name} '
                          f'drifted by {d:.3e} (> {n}*1e-12*{sc:.2e}) after {n_steps} steps'))
          if base == 'tracers/uniform':
            c = float(np.max(np.abs(self.init[key])))
            rest = np.array(a, dtype=np.float64)
            rest[..., 0, 0] = 0
            r = float(np.max(np.abs(rest)))
            if r > n * 1e-11 * c:
              out.append(('R-I3', f'{world}: uniform tracer became non-uniform: '
                          f'non-(0,0) coefficient {r:.3e} after {n_steps} steps'))
            d = float(np.max(np.abs(a[..., 0, 0] - self.init[key])))
            if d > n * 1e-12 * c:
              out.append(('R-I3', f'{world}: uniform tracer mean drifted by {d:.3e} '
                          f'after {n_steps} steps'))
      if name.endswith('sim_time') and a.ndim != 0:
        out.append(('R-I4', f'{world}: carried clock {name} is no longer a scalar '
                    f'(shape {a.shape}) after {n_steps} steps'))
      elif name.endswith('sim_time') and t_expected is not None:
        want = t_expected.get(name.split('sim_time')[0], None)
        if want is not None:
          d = abs(float(a) - want)
          if d > n * 1e-11 * dt:
            out.append(('R-I4', f'{world}: carried clock {name}={float(a)!r} differs from '
                        f'n*dt={want!r} by {d:.3e} after {n_steps} steps'))
    if nonfinite is not None:
      if getattr(self, 'last_peak', 0.0) < 1e3:
        out.append(('R-I5', f'{world}: {nonfinite} became non-finite after {n_steps} steps '
                    f'while the previous state was bounded'))
      else:
        raise Inconclusive('state blew up (physical instability)')
    self.last_peak = peak
    if peak > 1e3:
      raise Inconclusive(f'state grew {peak:.1e}x (physical instability)')
    return out


# ----------------------------------------------------------------------------
# worlds
# ----------------------------------------------------------------------------

class RefWorld:
  """Plain loop, one jitted step at a time, one device, unpadded, never restarted."""

  def __init__(self, job):
    self.job = copy.deepcopy(job)
    self.coords = build_coords(job, {})
    rs = np.random.RandomState(job['seed'] ^ 0x5a5a)
    h = gen.physics_specs().nondimensionalize(job['oro'] * scales.units.m)
    if job['family'] == 'sw':
      h = 0.02 if job['oro'] else 0.0
    self.oro = gen.random_orography(rs, self.coords.horizontal, h)
    if job.get('oro_unclipped') and h:
      # modal orography as `grid.to_modal(mountain)` gives it: the top total
      # wavenumber is populated
      self.oro = gen.random_modal(rs, self.coords.horizontal, (), amp=h, decay=2.0,
                                  clip_top=False)
    self.eq = build_equation(job, self.coords, self.oro)
    self._rebuild()
    s0 = initial_state(job, self.coords, self.eq)
    self.states = [s0]
    self.times = [self._t0(job)]
    self.snapshots = {}

  @staticmethod
  def _t0(job):
    t0 = float(job.get('t0', 0.0))
    if job['integrator'] == 'semi_implicit_leapfrog':
      return {'t0.': t0, 't1.': t0 + job['dt']}
    return {'': t0}

  def _rebuild(self):
    self.eq = build_equation(self.job, self.coords, self.oro)
    self.step = jax.jit(build_step(self.job, self.coords, self.eq))

  def reconfigure(self, job, n):
    self.job = copy.deepcopy(job)
    self._rebuild()
    del self.states[n + 1:]
    del self.times[n + 1:]

  def ensure(self, n):
    while len(self.states) <= n:
      self.states.append(self.step(self.states[-1]))
      t = self.times[-1]
      dt = self.job['dt']
      if 't0.' in t:
        self.times.append({'t0.': t['t1.'], 't1.': t['t0.'] + 2 * dt})
      else:
        self.times.append({'': t[''] + dt})
    return self.states[n]

  def replace(self, n, state):
    self.ensure(n)
    del self.states[n + 1:]
    del self.times[n + 1:]
    self.states[n] = state

  def snapshot(self, cid, n):
    self.snapshots[cid] = (n, self.states[n], dict(self.times[n]), copy.deepcopy(self.job))

  def rewind(self, cid):
    n, st, t, job = self.snapshots[cid]
    del self.states[n:]
    del self.times[n:]
    self.states.append(st)
    self.times.append(dict(t))
    if job != self.job:
      self.job = copy.deepcopy(job)
      self._rebuild()
    return n


class Sut:
  """The deployed run: layout, compile cache, volatile state, durable store."""

  def __init__(self, job, ref: RefWorld, run_id):
    self.job = copy.deepcopy(job)
    self.layout = {}
    self.run_id = run_id
    self.oro_ref = ref.oro
    self.store = {}          # durable: checkpoint id -> record (bytes / dataset + config)
    self.n = 0
    self.restarted = False
    self._build()
    self.state = ref.states[0]
    if job.get('layout0'):
      self.state = self.relayout(self.state, job['layout0'])

  def _build(self):
    self.coords = build_coords(self.job, self.layout)
    self.eq = build_equation(self.job, self.coords, self.oro_ref)
    self.step_fn = build_step(self.job, self.coords, self.eq)
    self.jits = {}

  def advance_fn(self, outer, inner, swi, of, if_):
    key = kernel.sha([outer, inner, swi, of, if_])
    fn = self.jits.get(key)
    if fn is None:
      fn = jax.jit(ti.trajectory_from_step(
          self.step_fn, outer, inner, start_with_input=swi,
          outer_scan_fn=comb.make_scan(of), inner_scan_fn=comb.make_scan(if_)))
      self.jits[key] = fn
    return fn

  def relayout(self, state, new_layout):
    """Trim the state to resolved coefficients and re-pad for a new layout."""
    old = self.coords
    rows, cols = limits(old)
    self.layout = dict(new_layout)
    self._build()
    shape = self.coords.horizontal.modal_shape
    def f(a):
      a = np.asarray(a)
      if a.ndim >= 2:
        return jnp.asarray(gen.pad_to(a[..., :rows, :cols], shape))
      return jnp.asarray(a)
    return jax.tree_util.tree_map(f, state)


def mesh_from_attr(s):
  s = str(s) if s is not None else ''
  if not s:
    return None
  d = dict(kv.split('=') for kv in s.split(','))
  return [int(d['z']), int(d['x']), int(d['y'])]


# ----------------------------------------------------------------------------
# persistence helpers (C19)
# ----------------------------------------------------------------------------

def state_slices(state):
  return list(state) if (isinstance(state, tuple) and not hasattr(state, 'asdict')) else [state]


def to_data_dict(st, diagnostics=None):
  d = {k: (dict(v) if isinstance(v, dict) else v) for k, v in st.asdict().items()}
  d = jax.tree_util.tree_map(np.asarray, d)
  if diagnostics is not None:
    d['diagnostics'] = diagnostics
  return d


def flat_data(d):
  out = {}
  for k, v in d.items():
    if isinstance(v, dict):
      for kk, vv in v.items():
        out[kk] = np.asarray(vv)
    else:
      out[k] = np.asarray(v)
  return out


def expected_dims(shape, coords, times, samples):
  """Documented dimension names for an array of this shape."""
  g = coords.horizontal
  L = coords.vertical.layers
  lead = []
  rest = tuple(shape)
  if samples is not None:
    lead.append('sample')
    rest = rest[1:]
  if times is not None:
    lead.append('time')
    rest = rest[1:]
  if rest == ():
    return tuple(lead)
  ms, ns = tuple(g.modal_shape), tuple(g.nodal_shape)
  if rest == (L,) + ms:
    core = ('level', 'longitudinal_mode', 'total_wavenumber')
  elif rest == (L,) + ns:
    core = ('level', 'lon', 'lat')
  elif rest == (1,) + ms:
    core = ('surface', 'longitudinal_mode', 'total_wavenumber')
  elif rest == (1,) + ns:
    core = ('lon', 'lat')  # documented unconventional surface nodal covariate shape
  elif rest == ms:
    core = ('longitudinal_mode', 'total_wavenumber')
  elif rest == ns:
    core = ('lon', 'lat')
  else:
    return None
  return tuple(lead) + core


COORD_FIELDS = ('longitude_wavenumbers', 'total_wavenumbers', 'longitude_nodes',
                'latitude_nodes', 'latitude_spacing', 'longitude_offset', 'radius')


def coords_equal(a, b):
  for f in COORD_FIELDS:
    x, y = getattr(a.horizontal, f), getattr(b.horizontal, f)
    if isinstance(x, str):
      if x != y:
        return False, f'{f}: {y!r} != {x!r}'
    elif float(x) != float(y):
      return False, f'{f}: {y!r} != {x!r}'
  if type(a.vertical).__name__ != type(b.vertical).__name__:
    return False, f'vertical type {type(b.vertical).__name__} != {type(a.vertical).__name__}'
  va, vb = a.vertical, b.vertical
  if va.layers != vb.layers:
    return False, f'layers {vb.layers} != {va.layers}'
  for attr in ('boundaries', 'centers'):
    if hasattr(va, attr):
      if not np.array_equal(np.asarray(getattr(va, attr)), np.asarray(getattr(vb, attr))):
        return False, f'vertical {attr} differ'
  return True, ''


# ----------------------------------------------------------------------------
# the run
# ----------------------------------------------------------------------------

TAG = {'R-I1': 'C11', 'R-I2': 'C11', 'R-I3': 'C11', 'R-I4': 'C11', 'R-I5': 'C11',
       'R-CLOCK-FROZEN': 'C11',
       'R-ADVANCE': 'C14', 'R-RESPLIT': 'C14',
       'R-DURABLE': 'C19', 'R-DIMS': 'C19', 'R-COORDS': 'C19', 'R-CODEC': 'C19',
       'R-UPDOWN': 'C19', 'R-CONTINUE': 'C19', 'R-PERSIST-OUTCOME': 'C19',
       'R-RESHARD-REFINE': 'C07', 'R-RESHARD-FINITE': 'C07'}


class Run:
  def __init__(self, job, prop, run_id):
    self.prop = prop
    self.job = copy.deepcopy(job)
    self.log = kernel.EventLog()
    self.log.emit('job', job=job, prop=prop)
    self.ref = RefWorld(job)
    self.sut = Sut(job, self.ref, run_id)
    self.monitor = Monitor(job, self.ref.states[0], self.ref.coords)
    self.viols = []
    self.cross = []
    self.inconclusive = None
    self.worst_err = 0.0
    self.stats = {'events': {}, 'faults': {}, 'steps': 0, 'sim_time': 0.0,
                  'probes': {}, 'checkpoint_cycles': 0, 'sharded_steps': 0}
    self.last_ckpt = None
    self.ckpt_seq = 0
    self.since_restart = None
    self.fs = fsspec.filesystem('memory')
    self.base_path = f'memory://dsim/{run_id}'

  # -- bookkeeping
  def probe(self, k, n=1):
    self.stats['probes'][k] = self.stats['probes'].get(k, 0) + n

  def report(self, oracle, msg, ev_index, **kw):
    tag = TAG[oracle]
    sig = {'oracle': oracle, 'family': self.job['family'], 'event': kw.pop('event', None)}
    v = kernel.make_violation(tag, oracle, msg, sig=sig, op_index=ev_index, **kw)
    if tag == self.prop:
      self.viols.append(v)
    else:
      self.cross.append({'property': tag, 'oracle': oracle, 'message': msg[:200],
                         'event': ev_index})
      raise Inconclusive(f'{oracle} ({tag}) failed: {msg[:120]}')

  def monitors(self, ev_index, event):
    sut, ref = self.sut, self.ref
    dt = self.job['dt']
    for world, st, coords, t in (
        ('sut', sut.state, sut.coords, ref.times[sut.n] if sut.n < len(ref.times) else None),
        ('ref', ref.states[sut.n], ref.coords, ref.times[sut.n])):
      for oracle, msg in self.monitor.check(st, coords, sut.n, t, dt, world):
        self.report(oracle, msg, ev_index, event=event)

  def compare_with_ref(self, ev_index, event):
    """SUT state vs reference world at the same step count; returns ok."""
    sut, ref = self.sut, self.ref
    a = canon(ref.ensure(sut.n), ref.coords)
    b = canon(sut.state, sut.coords)
    ok, msg, err = compare_canon(a, b, self.job['dt'])
    if ok:
      self.worst_err = max(self.worst_err, err)
    self.log.emit('cmp', n=sut.n, ok=ok, err=float(f'{err:.3e}') if np.isfinite(err) else -1)
    return ok, msg

  # -- events
  def ev_advance(self, i, ev):
    sut, ref = self.sut, self.ref
    outer, inner, swi = ev['outer'], ev['inner'], ev['swi']
    n0 = sut.n
    pre = sut.state
    fn = sut.advance_fn(outer, inner, swi, ev['of'], ev['if'])
    final, frames = fn(pre)
    final = jax.block_until_ready(final)
    total = outer * inner
    ref.ensure(n0 + total)
    self.stats['steps'] += total
    self.stats['sim_time'] += total * self.job['dt']
    if sut.layout.get('mesh'):
      self.stats['sharded_steps'] += total
    if inner == 1:
      self.probe('inner_eq_1_shortcut')
    if isinstance(ev['of'], list) or isinstance(ev['if'], list):
      self.probe('nested_checkpoint_scan_in_model')
    sut.state = final
    sut.n = n0 + total
    want_final = canon(ref.states[n0 + total], ref.coords)
    got_final = canon(final, sut.coords)
    ok, msg, err = compare_canon(want_final, got_final, self.job['dt'])
    if ok:
      self.worst_err = max(self.worst_err, err)
    bad = None if ok else f'final state after {total} steps: {msg}'
    if ok and outer >= 1:
      for k in range(outer):
        idx = n0 + (k * inner if swi else (k + 1) * inner)
        fk = jax.tree_util.tree_map(lambda a, k=k: a[k], frames)
        okk, msgk, _ = compare_canon(canon(ref.states[idx], ref.coords),
                                     canon(fk, sut.coords), self.job['dt'])
        if not okk:
          bad = (f'frame {k} is not the state after {idx - n0} steps '
                 f'(outer={outer}, inner={inner}, start_with_input={swi}): {msgk}')
          break
    self.log.emit('advance', ev=ev, n=sut.n, out=kernel.sha(
        {k: kernel.array_hash(np.round(v, 9) if v.dtype.kind == 'f' else v)
         for k, v in got_final.items()})[:12], ok=bad is None)
    if bad is not None:
      self.blame_divergence(i, ev, pre, n0, bad)
    if ev.get('alt') and bad is None:
      a = ev['alt']
      fn2 = sut.advance_fn(a['outer'], a['inner'], False, a['of'], a['if'])
      final2, _ = fn2(pre)
      ok2, msg2, _ = compare_canon(got_final, canon(final2, sut.coords), self.job['dt'])
      self.probe('resplit')
      if not ok2:
        self.report('R-RESPLIT', f'same {total} steps split as ({a["outer"]},{a["inner"]},'
                    f'{a["of"]},{a["if"]}) instead of ({outer},{inner}) give a different '
                    f'final state: {msg2}', i, event='ADVANCE')
    if ev.get('chunk') and outer >= 1:
      self.output_chunk(i, frames, outer)
    # frames first, in order (structural zeros and finiteness on every emitted
    # frame): a gradual physical blow-up inside a long ADVANCE is then classified
    # as instability before the final state is judged
    for k in range(outer):
      fk = jax.tree_util.tree_map(lambda a, k=k: a[k], frames)
      for oracle, msg in self.monitor.check(fk, sut.coords, max(sut.n, 1), None,
                                            self.job['dt'], f'sut-frame{k}'):
        if oracle in ('R-I1', 'R-I5'):
          self.report(oracle, msg, i, event='ADVANCE')
    self.monitors(i, 'ADVANCE')

  def blame_divergence(self, i, ev, pre, n0, bad):
    """Differential diagnosis: which property does an ADVANCE divergence belong to?"""
    sut, ref = self.sut, self.ref
    outer, inner, swi = ev['outer'], ev['inner'], ev['swi']
    # clean twin: same combinator call on the never-restarted, unsharded reference objects
    twin_fn = jax.jit(ti.trajectory_from_step(
        build_step(ref.job, ref.coords, ref.eq), outer, inner, start_with_input=swi,
        outer_scan_fn=comb.make_scan(ev['of']), inner_scan_fn=comb.make_scan(ev['if'])))
    try:
      tfinal, tframes = twin_fn(ref.states[n0])
      ok, _, _ = compare_canon(canon(ref.states[n0 + outer * inner], ref.coords),
                               canon(tfinal, ref.coords), self.job['dt'])
      if ok:
        for k in range(outer):
          idx = n0 + (k * inner if swi else (k + 1) * inner)
          fk = jax.tree_util.tree_map(lambda a, k=k: a[k], tframes)
          okk, _, _ = compare_canon(canon(ref.states[idx], ref.coords),
                                    canon(fk, ref.coords), self.job['dt'])
          ok = ok and okk
    except Exception:  # the combinator itself crashes on the clean twin
      ok = False
    if not ok:
      self.report('R-ADVANCE', 'real model through trajectory_from_step differs from the '
                  'plain sequential loop: ' + bad, i, event='ADVANCE')
    elif sut.layout.get('mesh') or sut.layout.get('base'):
      self.report('R-RESHARD-REFINE', f'sharded/padded run (layout {sut.layout}) left the '
                  f'unsharded reference trajectory: ' + bad, i, event='ADVANCE')
    elif sut.restarted:
      self.report('R-CONTINUE', 'run continued after restart from durable state left the '
                  'reference trajectory: ' + bad, i, event='ADVANCE')
    else:
      # combinators are fine on the clean twin, no mesh, no restart: the deployed run
      # itself went wrong (e.g. state leaking between calls). If its state breaks a
      # structural invariant that is a C11 matter; otherwise report the divergence.
      for world, st, coords in ((('sut', sut.state, sut.coords),)
                                if self.prop == 'C11' else ()):
        for oracle, msg in self.monitor.check(st, coords, sut.n, ref.times[sut.n],
                                              self.job['dt'], world):
          self.report(oracle, msg + ' (and the run left the reference trajectory)', i,
                      event='ADVANCE')
      self.report('R-ADVANCE', 'SUT differs from the plain sequential loop: ' + bad, i,
                  event='ADVANCE')

  def apply_in_place(self, i, name, fn_sut, fn_ref):
    sut, ref = self.sut, self.ref
    before = {k: v for k, v in named_leaves(sut.state) if k.endswith('sim_time')}
    new_sut = fn_sut(sut.state)
    new_ref = fn_ref(ref.ensure(sut.n))
    ref.replace(sut.n, new_ref)
    sut.state = new_sut
    after = {k: v for k, v in named_leaves(sut.state) if k.endswith('sim_time')}
    for k in before:
      if not np.array_equal(np.asarray(before[k]), np.asarray(after[k])):
        self.report('R-CLOCK-FROZEN', f'{name} changed the carried clock {k}: '
                    f'{np.asarray(before[k]).tolist()!r} -> '
                    f'{np.asarray(after[k]).tolist()!r}'[:300], i, event=name)
    ok, msg = self.compare_with_ref(i, name)
    if not ok:
      tag = 'R-RESHARD-REFINE' if (sut.layout.get('mesh') or sut.layout.get('base')) else 'R-ADVANCE'
      self.report(tag, f'{name} on the SUT layout differs from the reference: {msg}', i,
                  event=name)
    self.monitors(i, name)

  def ev_filter_only(self, i, ev):
    job = dict(self.job)
    job['filters'] = [ev['filter']]
    leap = self.job['integrator'] == 'semi_implicit_leapfrog'
    if ev['filter']['kind'] == 'ra':
      # the Robert-Asselin filter mixes three time levels of a leapfrog pair; applied
      # outside a step it legitimately moves the filtered slot's clock - not a
      # state filter, so not a FILTER_ONLY candidate
      return
    f_sut = build_filters(job, self.sut.coords.horizontal)[0]
    f_ref = build_filters(job, self.ref.coords.horizontal)[0]
    self.apply_in_place(i, 'FILTER_ONLY', jax.jit(lambda s: f_sut(s, s)),
                        jax.jit(lambda s: f_ref(s, s)))

  def ev_solve_only(self, i, ev):
    eta = ev['eta']
    leap = self.job['integrator'] == 'semi_implicit_leapfrog'
    def mk(eq):
      def f(s):
        if leap:
          return (s[0], eq.implicit_inverse(s[1], eta))
        return eq.implicit_inverse(s, eta)
      return jax.jit(f)
    self.apply_in_place(i, 'IMPLICIT_SOLVE_ONLY', mk(self.sut.eq), mk(self.ref.eq))

  def ev_reconfigure(self, i, ev):
    leap_before = self.job['integrator'] == 'semi_implicit_leapfrog'
    leap_after = ev['integrator'] == 'semi_implicit_leapfrog'
    if leap_before != leap_after:
      ev = dict(ev, integrator=self.job['integrator'])   # state shape must be kept
      if leap_before:
        ev['filters'] = [f for f in ev['filters'] if True]
    if not leap_before:
      ev['filters'] = [f for f in ev['filters'] if f['kind'] != 'ra']
    for k in ('integrator', 'filters'):
      self.job[k] = copy.deepcopy(ev[k])
    self.sut.job = copy.deepcopy(self.job)
    self.sut._build()
    self.ref.reconfigure(self.job, self.sut.n)
    self.log.emit('reconfigure', integrator=self.job['integrator'],
                  filters=self.job['filters'])

  def ev_recompile(self, i, ev):
    jax.clear_caches()
    self.sut._build()
    self.log.emit('recompile')

  def ev_reshard(self, i, ev):
    sut = self.sut
    new = ev['layout']
    if self.job['impl'] == 'real' or self.job['family'] == 'sw':
      return
    if new.get('mesh') and self.job['layers'] % new['mesh'][0]:
      return
    before = {k: v for k, v in named_leaves(sut.state) if k.endswith('sim_time')}
    sut.state = sut.relayout(sut.state, new)
    after = {k: v for k, v in named_leaves(sut.state) if k.endswith('sim_time')}
    for k in before:
      if not np.array_equal(np.asarray(before[k]), np.asarray(after[k])):
        self.report('R-CLOCK-FROZEN', f'RESHARD changed the carried clock {k}', i,
                    event='RESHARD')
    self.log.emit('reshard', layout=new, modal_shape=list(sut.coords.horizontal.modal_shape))
    if self.since_restart is not None and self.since_restart <= 1:
      self.probe('reshard_right_after_restart')
    ok, msg = self.compare_with_ref(i, 'RESHARD')
    if not ok:
      self.report('R-RESHARD-REFINE', f'state changed by re-layout: {msg}', i, event='RESHARD')
    self.monitors(i, 'RESHARD')

  # -- persistence
  def diagnostics_for(self, rs, kind):
    g = self.sut.coords.horizontal
    L = self.job['layers']
    if kind == 0 or L == 1:
      # (1, lon, lat) is the documented 2-D surface-covariate shape in
      # data_to_xarray's shape->dims table, so a one-layer nodal diagnostic is
      # outside its domain (shape-based inference is ambiguous there)
      return None
    d = {'precip': rs.standard_normal((L,) + tuple(g.nodal_shape))}
    if kind >= 2:
      d['flux'] = rs.standard_normal((L,) + tuple(g.modal_shape)) * np.asarray(g.mask)
    return d

  def write_dataset(self, st, diagnostics, times=None, samples=None):
    sut = self.sut
    data = to_data_dict(st, diagnostics)
    serialize = not isinstance(sut.coords.horizontal.spherical_harmonics_impl,
                               functools.partial)
    ds = xarray_utils.data_to_xarray(data, coords=sut.coords, times=times,
                                     sample_ids=samples,
                                     serialize_coords_to_attrs=serialize)
    return ds, data, serialize

  def check_dataset(self, i, ds, data, times, samples, where):
    sut = self.sut
    flat = flat_data(data)
    g = sut.coords.horizontal
    ambiguous = tuple(g.modal_shape) == tuple(g.nodal_shape)
    # coordinate labels: every dimension that carries documented labels must carry
    # exactly the supplied ones
    lon_k, lat_k = g.modal_axes
    lon, sin_lat = g.nodal_axes
    want_labels = {'level': np.asarray(sut.coords.vertical.centers),
                   'longitudinal_mode': np.asarray(lon_k),
                   'total_wavenumber': np.asarray(lat_k),
                   'lon': np.asarray(lon) * 180 / np.pi,
                   'lat': np.arcsin(np.asarray(sin_lat)) * 180 / np.pi}
    if times is not None:
      want_labels['time'] = np.asarray(times)
    if samples is not None:
      want_labels['sample'] = np.asarray(samples)
    for dim, want in want_labels.items():
      if dim in ds.dims:
        if dim not in ds.coords:
          self.report('R-DIMS', f'{where}: dimension {dim!r} lost its coordinate labels',
                      i, event='CHECKPOINT')
        elif not np.array_equal(np.asarray(ds[dim].values, np.float64),
                                np.asarray(want, np.float64)):
          self.report('R-DIMS', f'{where}: coordinate labels of {dim!r} are '
                      f'{np.asarray(ds[dim].values).tolist()[:6]}, supplied '
                      f'{np.asarray(want).tolist()[:6]}', i, event='CHECKPOINT')
    for k, v in flat.items():
      if k not in ds:
        self.report('R-DURABLE', f'{where}: variable {k} missing from the dataset', i,
                    event='CHECKPOINT')
        continue
      if not np.array_equal(np.asarray(ds[k].values), v, equal_nan=True) or ds[k].values.dtype != v.dtype:
        self.report('R-DURABLE', f'{where}: variable {k} not stored bit-identically', i,
                    event='CHECKPOINT')
      want = expected_dims(v.shape, sut.coords, times, samples)
      if want is not None and not ambiguous and not (
          self.job['layers'] == 1 and v.ndim >= 3):
        if tuple(ds[k].dims) != want:
          self.report('R-DIMS', f'{where}: variable {k} of shape {v.shape} got dimension '
                      f'names {tuple(ds[k].dims)}, documented {want}', i, event='CHECKPOINT')

  def read_state(self, ds):
    fam = self.job['family']
    names = [k for k in tracer_names(self.job)] + (['uniform'] if fam != 'sw' else [])
    if fam == 'sw':
      d = xarray_utils.xarray_to_shallow_water_eq_data(ds)
      return shallow_water.State(**d)
    if fam == 'dry':
      d = xarray_utils.xarray_to_primitive_eq_data(ds, tracers_to_include=names)
      return primitive_equations.State(**d)
    d = xarray_utils.xarray_to_primitive_equations_with_time_data(ds, tracers_to_include=names)
    return primitive_equations.StateWithTime(**d)

  def ambiguous_layout(self):
    g = self.sut.coords.horizontal
    return tuple(g.modal_shape) == tuple(g.nodal_shape)

  def ev_checkpoint(self, i, ev):
    sut = self.sut
    if self.ambiguous_layout():
      # data_to_xarray infers dimension names from array shapes; a (padded) layout
      # whose modal and nodal shapes coincide is outside its domain - a user has
      # to save on an unpadded layout there. Counted, not checkpointed.
      self.probe('checkpoint_skipped_ambiguous_layout')
      return
    rs = np.random.RandomState(ev['ds'])
    slices = state_slices(sut.state)
    cid = self.ckpt_seq
    self.ckpt_seq += 1
    rec = {'n': sut.n, 'variant': ev['variant'], 'slices': [], 'job': copy.deepcopy(self.job),
           'layout': copy.deepcopy(sut.layout), 'oracle_bits': []}
    try:
      for j, st in enumerate(slices):
        diag = self.diagnostics_for(rs, ev.get('diag', 0))
        ds, data, serialize = self.write_dataset(st, diag)
        self.check_dataset(i, ds, data, None, None, f'checkpoint {cid}')
        if serialize:
          rebuilt = xarray_utils.coordinate_system_from_attrs(ds.attrs)
          okc, msgc = coords_equal(sut.coords, rebuilt)
          if not okc:
            self.report('R-COORDS', f'coordinate system rebuilt from dataset attributes '
                        f'differs: {msgc}', i, event='CHECKPOINT')
        if ev['variant'] == 'netcdf':
          path = f'{self.base_path}/ckpt{cid}_{j}.nc'
          xarray_utils.save_netcdf(ds, path)
          rec['slices'].append({'path': path, 'serialize': serialize})
          self.probe('netcdf_store')
        else:
          rec['slices'].append({'ds': ds.copy(deep=True), 'serialize': serialize})
        rec['oracle_bits'].append({k: np.array(v, copy=True) for k, v in named_leaves(st)})
    except Inconclusive:
      raise
    except Exception as e:  # pylint: disable=broad-except
      self.report('R-PERSIST-OUTCOME', f'writing a checkpoint raised {type(e).__name__}: '
                  f'{str(e)[:300]}', i, event='CHECKPOINT',
                  traceback=traceback.format_exc()[-1200:])
      return
    sut.store[cid] = rec
    self.ref.snapshot(cid, sut.n)
    self.last_ckpt = cid
    self.stats['checkpoint_cycles'] += 1
    self.log.emit('checkpoint', cid=cid, n=sut.n, variant=ev['variant'],
                  bits=kernel.sha([{k: kernel.array_hash(v) for k, v in b.items()}
                                   for b in rec['oracle_bits']])[:12])

  def ev_crash_restart(self, i, ev):
    if self.last_ckpt is None:
      return
    cid = self.last_ckpt
    old = self.sut
    rec = old.store[cid]
    oro_ref = old.oro_ref
    store = old.store
    run_id = old.run_id
    if self.stats['events'].get('CHECKPOINT', 0) and self._prev_event == 'CHECKPOINT':
      self.probe('restart_immediately_after_checkpoint')
    if self._prev_event == 'RESHARD':
      self.probe('restart_after_reshard')
    # ---- crash: every volatile object goes away
    del old
    self.sut = None
    jax.clear_caches()
    # ---- restart from durable bytes only
    try:
      states = []
      coords = None
      for sl in rec['slices']:
        if 'path' in sl:
          ds = xarray_utils.open_netcdf(sl['path'])
        else:
          ds = sl['ds'].copy(deep=True)
        if sl['serialize']:
          impl = xarray_utils.GRID_REGISTRY[str(ds.attrs['spherical_harmonics_impl'])]
          mesh = mesh_from_attr(ds.attrs.get('spmd_mesh', ''))
          coords = xarray_utils.coordinate_system_from_dataset(
              ds, spherical_harmonics_impl=impl,
              spmd_mesh=gen.make_mesh(mesh) if mesh else None)
        states.append(self.read_state(ds))
    except Exception as e:  # pylint: disable=broad-except
      # rebuild a usable SUT so the run can be torn down cleanly
      self.sut = Sut.__new__(Sut)
      self.report('R-PERSIST-OUTCOME', f'restart from durable state raised '
                  f'{type(e).__name__}: {str(e)[:300]}', i, event='CRASH_RESTART',
                  traceback=traceback.format_exc()[-1200:])
      return
    sut = Sut.__new__(Sut)
    sut.job = copy.deepcopy(rec['job'])
    sut.layout = copy.deepcopy(rec['layout'])
    sut.run_id = run_id
    sut.oro_ref = oro_ref
    sut.store = store
    sut.n = rec['n']
    sut.restarted = True
    sut._build()
    self.sut = sut
    self.job = copy.deepcopy(rec['job'])
    if coords is not None:
      okc, msgc = coords_equal(sut.coords, coords)
      if not okc:
        self.report('R-COORDS', f'coordinate system reconstructed at restart differs from '
                    f'the one checkpointed: {msgc}', i, event='CRASH_RESTART')
      if tuple(coords.horizontal.modal_shape) != tuple(sut.coords.horizontal.modal_shape):
        self.report('R-COORDS', f'reconstructed modal layout {coords.horizontal.modal_shape} '
                    f'!= checkpointed {sut.coords.horizontal.modal_shape}', i,
                    event='CRASH_RESTART')
    for st, want in zip(states, rec['oracle_bits']):
      got = {k: np.asarray(v) for k, v in named_leaves(st)}
      ok, msg = bits_equal(want, got)
      if not ok:
        self.report('R-DURABLE', f'state restored after crash is not bit-identical to the '
                    f'checkpointed one: {msg}', i, event='CRASH_RESTART')
    states = [jax.tree_util.tree_map(jnp.asarray, s) for s in states]
    sut.state = tuple(states) if len(states) > 1 else states[0]
    n = self.ref.rewind(cid)
    assert n == sut.n
    self.since_restart = 0
    self.count_fault('CRASH_RESTART')
    self.log.emit('restart', cid=cid, n=sut.n)
    ok, msg = self.compare_with_ref(i, 'CRASH_RESTART')
    if not ok:
      self.report('R-DURABLE', f'restored state differs from the reference snapshot: {msg}',
                  i, event='CRASH_RESTART')
    self.monitors(i, 'CRASH_RESTART')

  def count_fault(self, k):
    self.stats['faults'][k] = self.stats['faults'].get(k, 0) + 1

  def output_chunk(self, i, frames, outer):
    """Trajectory frames through the restructuring codecs and a time-axis dataset."""
    sut = self.sut
    if self.ambiguous_layout():
      self.probe('checkpoint_skipped_ambiguous_layout')
      return
    self.probe('output_chunk')
    try:
      fr = frames
      if isinstance(fr, tuple) and not hasattr(fr, 'asdict'):
        fr = fr[1]
      flat0 = {k: np.asarray(v) for k, v in named_leaves(fr)}
      if outer >= 2:
        cut = 1 + (i % (outer - 1))
        a, b = pytree_utils.split_along_axis(fr, cut, axis=0)
        back = pytree_utils.concat_along_axis([a, b], axis=0)
        ok, msg = bits_equal(flat0, {k: np.asarray(v) for k, v in named_leaves(back)})
        if not ok:
          self.report('R-CODEC', f'concat_along_axis(split_along_axis(frames, {cut})) != '
                      f'frames: {msg}', i, event='ADVANCE')
      parts = pytree_utils.split_axis(fr, 0)
      if len(parts) != outer:
        self.report('R-CODEC', f'split_axis gave {len(parts)} parts for {outer} frames', i,
                    event='ADVANCE')
      back = pytree_utils.concat_along_axis(
          [jax.tree_util.tree_map(lambda a: a[None], p) for p in parts], axis=0)
      ok, msg = bits_equal(flat0, {k: np.asarray(v) for k, v in named_leaves(back)})
      if not ok:
        self.report('R-CODEC', f're-stacking split_axis(frames) != frames: {msg}', i,
                    event='ADVANCE')
      times = np.arange(outer) * self.job['dt']
      ds, data, _ = self.write_dataset(fr, None, times=times)
      self.check_dataset(i, ds, data, times, None, 'trajectory chunk')
      got = self.read_state(ds)
      ok, msg = bits_equal(flat0, {k: np.asarray(v) for k, v in named_leaves(got)})
      if not ok:
        self.report('R-DURABLE', f'trajectory chunk read back differs: {msg}', i,
                    event='ADVANCE')
      # sample axis on top
      samples = np.arange(2)
      fr2 = jax.tree_util.tree_map(lambda a: jnp.stack([a, a * 2]), fr)
      ds2, data2, _ = self.write_dataset(fr2, None, times=times, samples=samples)
      self.check_dataset(i, ds2, data2, times, samples, 'sample/time chunk')
      # sample axis without a time axis (an ensemble of states); non-trivial labels
      st_last = jax.tree_util.tree_map(lambda a: a[-1], fr)
      ens = jax.tree_util.tree_map(lambda a: jnp.stack([a, a * 2, a * 3]), st_last)
      ids = np.array([7, 11, 13])
      ds3, data3, _ = self.write_dataset(ens, None, times=None, samples=ids)
      self.check_dataset(i, ds3, data3, None, ids, 'sample-only chunk')
    except Inconclusive:
      raise
    except Exception as e:  # pylint: disable=broad-except
      self.report('R-PERSIST-OUTCOME', f'writing a trajectory chunk raised '
                  f'{type(e).__name__}: {str(e)[:300]}', i, event='ADVANCE',
                  traceback=traceback.format_exc()[-1200:])

  def ev_codec(self, i, ev):
    from dsim import codecs
    st = state_slices(self.sut.state)[-1]
    for oracle, msg in codecs.run_codecs(ev, st, self.sut.coords, self.job):
      self.report(oracle, msg, i, event='CODEC')
    self.probe('codec_cases')

  def ev_upsample(self, i, ev):
    from dsim import codecs
    st = state_slices(self.sut.state)[-1]
    for oracle, msg in codecs.run_updown(ev, st, self.sut.coords, self.job):
      self.report(oracle, msg, i, event='UPSAMPLE')
    self.probe('upsample_cases')

  # -- driver
  def run(self, events):
    handlers = {'ADVANCE': self.ev_advance, 'FILTER_ONLY': self.ev_filter_only,
                'IMPLICIT_SOLVE_ONLY': self.ev_solve_only,
                'RECONFIGURE': self.ev_reconfigure, 'RECOMPILE': self.ev_recompile,
                'RESHARD': self.ev_reshard, 'CHECKPOINT': self.ev_checkpoint,
                'CRASH_RESTART': self.ev_crash_restart, 'CODEC': self.ev_codec,
                'UPSAMPLE': self.ev_upsample}
    self._prev_event = None
    try:
      self.monitors(-1, 'INIT')
      for i, ev in enumerate(events):
        k = ev['k']
        self.stats['events'][k] = self.stats['events'].get(k, 0) + 1
        if k in ('RECOMPILE', 'RESHARD'):
          self.count_fault(k)
        handlers[k](i, ev)
        if self.since_restart is not None:
          self.since_restart += 1
        self._prev_event = k
        if self.viols:
          break
    except Inconclusive as e:
      self.inconclusive = str(e)
      self.log.emit('inconclusive', why=str(e)[:200])
    finally:
      try:
        self.fs.rm(self.base_path.replace('memory://', '/'), recursive=True)
      except Exception:
        pass
    return self


# ----------------------------------------------------------------------------
# event generation
# ----------------------------------------------------------------------------

MIX = {
    'C11': {'ADVANCE': 40, 'FILTER_ONLY': 10, 'IMPLICIT_SOLVE_ONLY': 8, 'RECONFIGURE': 10,
            'RECOMPILE': 4, 'RESHARD': 12, 'CHECKPOINT': 6, 'CRASH_RESTART': 10},
    'C14': {'ADVANCE': 66, 'RECONFIGURE': 10, 'RECOMPILE': 5, 'CHECKPOINT': 6,
            'CRASH_RESTART': 6, 'FILTER_ONLY': 7},
    'C19': {'CHECKPOINT': 24, 'CRASH_RESTART': 22, 'ADVANCE': 22, 'CODEC': 16,
            'UPSAMPLE': 8, 'RESHARD': 5, 'RECONFIGURE': 3},
    'C07': {'RESHARD': 28, 'ADVANCE': 46, 'CHECKPOINT': 6, 'CRASH_RESTART': 8,
            'FILTER_ONLY': 8, 'IMPLICIT_SOLVE_ONLY': 4},
}


def draw_layout(rng, job, prop, max_devices=8):
  r = rng.random()
  # C11 runs never use a device mesh: an invariant broken only under sharding is a
  # C07 matter and must not raise a C11 alarm (padded single-device layouts stay)
  p_mesh = {'C07': 0.8, 'C11': 0.0, 'C19': 0.8, 'C14': 0.0}[prop]
  if r < 0.15:
    return {}
  if rng.random() < p_mesh:
    L = job['layers']
    shapes = [s for s in gen.mesh_shapes(max_devices)
              if L % s[0] == 0 and all(a == 1 or a % 2 == 0 for a in s[1:])
              and s[0] * s[1] * s[2] > 1]
    return {'mesh': list(rng.choice(shapes))}
  if prop == 'C19':
    return {}
  return {'base': rng.choice([2, 4, 8])}


def draw_events(rng: random.Random, job, prop, n_events, opts) -> list:
  mix = MIX[prop]
  kinds, weights = zip(*sorted(mix.items()))
  events = [{'k': 'CHECKPOINT', 'variant': rng.choice(['mem', 'netcdf']),
             'ds': rng.randrange(1 << 30), 'diag': 0}]
  steps_budget = int(opts.get('max_steps', 36))
  if not job['filters']:
    steps_budget = min(steps_budget, 14)
  big = bool(job.get('long'))
  if big:
    steps_budget = int(opts.get('long_steps', 160))
  used = 0
  prev = 'CHECKPOINT'
  while len(events) < n_events:
    if prev in ('CHECKPOINT', 'RESHARD', 'RECONFIGURE') and 'CRASH_RESTART' in mix \
        and rng.random() < 0.3:
      k = 'CRASH_RESTART'
    else:
      k = rng.choices(kinds, weights)[0]
    ev = {'k': k}
    if k == 'ADVANCE':
      outer = rng.randint(1, 8 if big else 4)
      inner = rng.randint(1, 6 if big else 3)
      if used + outer * inner > steps_budget:
        outer, inner = 1, 1
        if used + 1 > steps_budget:
          k = 'CHECKPOINT'
          ev = {'k': k}
      if k == 'ADVANCE':
        used += outer * inner
        ev.update(outer=outer, inner=inner, swi=rng.random() < 0.4)
        if prop == 'C14':
          ev['of'] = comb.gen_flavour(rng, outer, False)
          ev['if'] = comb.gen_flavour(rng, inner, False)
          if rng.random() < 0.5:
            total = outer * inner
            divs = [d for d in range(1, total + 1) if total % d == 0]
            o2 = rng.choice(divs)
            ev['alt'] = {'outer': o2, 'inner': total // o2,
                         'of': comb.gen_flavour(rng, o2, False),
                         'if': comb.gen_flavour(rng, total // o2, False)}
        else:
          ev['of'] = 'lax'
          ev['if'] = 'lax'
        if prop == 'C19':
          ev['chunk'] = rng.random() < 0.6
    if k == 'FILTER_ONLY':
      ev['filter'] = draw_filters(rng, job['integrator'])[:1]
      if not ev['filter']:
        ev['filter'] = [{'kind': 'exp', 'order': 6, 'cutoff': 0.3, 'tau': 0.05}]
      ev['filter'] = ev['filter'][0]
    elif k == 'IMPLICIT_SOLVE_ONLY':
      ev['eta'] = rng.choice([0.04, 0.0875, 0.175])
    elif k == 'RECONFIGURE':
      ev['integrator'] = rng.choice(INTEGRATORS)
      ev['filters'] = draw_filters(rng, ev['integrator'])
    elif k == 'RESHARD':
      ev['layout'] = draw_layout(rng, job, prop, int(opts.get('max_devices', 8)))
    elif k == 'CHECKPOINT':
      ev.update(variant=rng.choice(['mem', 'netcdf']), ds=rng.randrange(1 << 30),
                diag=rng.choice([0, 0, 1, 2]))
    elif k in ('CODEC', 'UPSAMPLE'):
      ev['ds'] = rng.randrange(1 << 30)
    events.append(ev)
    prev = k
  return events


# ----------------------------------------------------------------------------
# shrinking and entry points
# ----------------------------------------------------------------------------

def execute(job, events, prop, run_id):
  r = Run(job, prop, run_id)
  r.run(events)
  return r


def candidates(case):
  job, events = case['job'], case['events']
  # drop events (keep the initial checkpoint)
  for i in range(len(events) - 1, 0, -1):
    yield {'job': job, 'events': events[:i] + events[i + 1:]}
  for i, ev in enumerate(events):
    if ev['k'] == 'ADVANCE':
      for key in ('outer', 'inner'):
        if ev[key] > 1 and not isinstance(ev.get('of' if key == 'outer' else 'if'), list):
          e2 = dict(ev)
          e2[key] = ev[key] - 1
          e2.pop('alt', None)
          yield {'job': job, 'events': events[:i] + [e2] + events[i + 1:]}
      for key in ('alt', 'chunk'):
        if ev.get(key):
          e2 = dict(ev)
          e2.pop(key)
          yield {'job': job, 'events': events[:i] + [e2] + events[i + 1:]}
      for key in ('of', 'if'):
        if ev.get(key) not in ('lax', None):
          e2 = dict(ev)
          e2[key] = 'lax'
          e2.pop('alt', None)
          yield {'job': job, 'events': events[:i] + [e2] + events[i + 1:]}
  def jv(**kw):
    j = copy.deepcopy(job)
    j.update(kw)
    return {'job': j, 'events': events}
  if job['filters']:
    yield jv(filters=job['filters'][:-1])
  if job['extra_tracers']:
    yield jv(extra_tracers=job['extra_tracers'][:-1])
  if job['oro']:
    yield jv(oro=0.0)
  if job['grid']['k'] > 4:
    g = dict(job['grid'])
    g['k'] -= 1
    yield jv(grid=g)
  if job['integrator'] not in ('backward_forward_euler', 'semi_implicit_leapfrog'):
    yield jv(integrator='backward_forward_euler')
  if job['layers'] > 1 and job['family'] != 'sw':
    L = job['layers'] - 1
    yield jv(layers=L, sigma=job['sigma'][:L] + [1.0], tref=job['tref'][:L])
  if job['vmethod'] is not None:
    yield jv(vmethod=None)


def minimise(case, prop, oracle, run_id):
  def still_fails(c):
    r = execute(c['job'], c['events'], prop, run_id + 'm')
    return any(v['oracle'] == oracle for v in r.viols)
  return kernel.greedy_shrink(case, candidates, still_fails, max_evals=25,
                              max_seconds=240)


def run_one(seed, tier, opts, prop):
  rng = kernel.sub_rng(seed, 'R')
  job = draw_job(rng, prop, opts)
  events = draw_events(rng, job, prop, int(opts.get('events', 12)), opts)
  run_id = f'{seed}'
  r = execute(job, events, prop, run_id)
  out_v = []
  seen = set()
  for v in r.viols:
    if v['oracle'] in seen:
      continue
    seen.add(v['oracle'])
    upto = events[:v['op_index'] + 1] if v['op_index'] >= 0 else events[:1]
    case = {'job': job, 'events': upto}
    mini, evals = (minimise(case, prop, v['oracle'], run_id)
                   if len(out_v) < (1 if kernel.violation_flag_set() else MAX_MINIMISED_PER_RUN)
                   else (case, 0))
    mr = execute(mini['job'], mini['events'], prop, run_id + 'r')
    mv = [x for x in mr.viols if x['oracle'] == v['oracle']] or [v]
    rep = {'version': 1, 'property': prop, 'engine': 'R', 'run_seed': seed, 'x64': True,
           'job': mini['job'], 'events': mini['events'],
           'violation': {'property': prop, 'oracle': v['oracle'],
                         'message': mv[0]['message'], 'sig': mv[0].get('sig')},
           'digest': mr.log.digest(),
           'minimised_from': {'events': len(events), 'job': job,
                              'shrink_evaluations': evals}}
    path = kernel.write_replay(rep, f"{seed}-{v['oracle']}")
    vv = {k: mv[0][k] for k in ('property', 'oracle', 'message', 'sig') if k in mv[0]}
    vv['replay'] = path
    out_v.append(vv)
  st = r.stats
  fired = sum(st['faults'].values())
  nontrivial = st['steps'] > 0 and fired > 0
  ev_kinds = [e['k'] for e in events]
  return {
      'digest': r.log.digest(),
      'sig': kernel.sha([{k: job[k] for k in ('family', 'impl', 'grid', 'layers',
                                               'integrator', 'filters', 'vmethod')},
                         ev_kinds])[:12],
      'nontrivial': nontrivial,
      'inconclusive': bool(r.inconclusive),
      'cover': {'r_events': st['events'], 'r_faults_fired': st['faults'],
                'r_model_steps': st['steps'], 'r_sharded_steps': st['sharded_steps'],
                'r_simulated_model_time_nondim': st['sim_time'],
                'r_simulated_model_seconds': st['sim_time'] * 6856.8,
                'r_checkpoint_cycles': st['checkpoint_cycles'],
                'r_probes': st['probes'],
                'r_families': {job['family']: 1},
                'r_integrators': {job['integrator']: 1},
                'r_inconclusive': int(bool(r.inconclusive)),
                'r_sut_vs_reference_rel_err_max': r.worst_err},
      'violations': out_v,
      'cross': r.cross,
      'sample': {'job': {k: job[k] for k in ('family', 'impl', 'grid', 'layers',
                                              'integrator', 'filters', 'dt')},
                 'events': events[:8]},
  }


def replay(rep, opts):
  r = execute(rep['job'], rep['events'], rep['property'], 'replay')
  out = [{k: v[k] for k in ('property', 'oracle', 'message', 'sig') if k in v}
         for v in r.viols]
  return {'digest': r.log.digest(), 'violations': out}
