"""Engine X: the unmodified library on a real XLA host-platform virtual-device
mesh, seeded configurations / workloads, refinement against the unsharded,
unpadded execution (C07).

Everything is real here (shard_map, XLA collectives, GSPMD, sharding
constraints); what is not owned is the interleaving of XLA's device threads —
results are interleaving independent (deterministic dataflow), which the
determinism self-test checks on every invocation.
"""
from __future__ import annotations

import copy
import random
import traceback

import jax
import jax.numpy as jnp
import numpy as np

from dinosaur import coordinate_systems
from dinosaur import filtering
from dinosaur import jax_numpy_utils
from dinosaur import primitive_equations
from dinosaur import scales
from dinosaur import sigma_coordinates
from dinosaur import spherical_harmonic
from dinosaur import time_integration

from dsim import gen
from dsim import kernel

MAX_MINIMISED_PER_RUN = 2
PROP = 'C07'
P = jax.sharding.PartitionSpec
RTOL = 1e-9

# ----------------------------------------------------------------------------
# configuration
# ----------------------------------------------------------------------------


def draw_mesh(rng: random.Random, max_devices: int, allow_odd=True):
  shapes = gen.mesh_shapes(max_devices)
  def ok(s):
    return allow_odd or all(a == 1 or a % 2 == 0 for a in s[1:])
  shapes = [s for s in shapes if ok(s)]
  # weight: prefer real parallelism, keep (1,1,1) and odd ring axes rare
  weights = []
  for s in shapes:
    n = s[0] * s[1] * s[2]
    odd = any(a > 1 and a % 2 for a in s[1:])
    w = 0.3 if n == 1 else (0.35 if odd else 1.0 + 0.25 * sum(a > 1 for a in s))
    weights.append(w)
  return list(rng.choices(shapes, weights)[0])


def draw_config(rng: random.Random, opts) -> dict:
  max_dev = int(opts.get('max_devices', 8))
  model = rng.random() < float(opts.get('p_model', 0.35))
  if rng.random() < 0.12:
    mesh = None  # unsharded but padded layout vs unpadded
  else:
    mesh = draw_mesh(rng, max_dev, allow_odd=not model)
  kmax = int(opts.get('kmax', 12))
  grid = gen.draw_grid_cfg(rng, 4, 9 if model else kmax, model=model)
  knobs = gen.draw_knobs(rng)
  if mesh is None and knobs['base'] in (None, 1):
    knobs['base'] = rng.choice([2, 4, 8])
  z = mesh[0] if mesh else 1
  if model:
    layers = z * rng.randint(1, max(1, 6 // z))
    if layers == 1:
      layers = 2 if z == 1 else z
  else:
    layers = rng.randint(2, 7)
  cfg = {'mesh': mesh,
         # mesh axes may be declared in any order; the library addresses them by name
         'mesh_order': rng.choice(['zxy', 'zxy', 'zxy', 'xyz', 'yxz', 'xzy', 'zyx', 'yzx']),
         'grid': grid, 'knobs': knobs, 'model': model,
         'layers': layers,
         'sigma': gen.draw_sigma_boundaries(rng, layers, uneven=rng.random() < 0.75),
         'tref': gen.draw_tref(rng, layers, constant=rng.random() < 0.3),
         'oro': rng.choice([0.0, 300.0, 1500.0]),
         'state_seed': rng.randrange(1 << 30)}
  return cfg


GRID_OPS_M2M = ['laplacian', 'inverse_laplacian', 'clip_wavenumbers', 'd_dlon',
                'cos_lat_d_dlat', 'sec_lat_d_dlat_cos2', 'roundtrip']
FIELDS = ['2d', 'surf', '3d', '3d']


def draw_ops(rng: random.Random, cfg, n_ops: int) -> list:
  ops = []
  z = cfg['mesh'][0] if cfg['mesh'] else 1
  for _ in range(n_ops):
    r = rng.random()
    ds = rng.randrange(1 << 30)
    if cfg['model'] and r < 0.55:
      kind = rng.choice(['implicit_terms', 'implicit_inverse', 'explicit_terms',
                         'diagnostic', 'step', 'step', 'step_filters',
                         'sharding_constraints', 'maybe_transform'])
      op = {'op': kind, 'ds': ds}
      if kind == 'implicit_terms':
        op['method'] = rng.choice([None, None, 'dense', 'sparse'])
      elif kind == 'implicit_inverse':
        op['method'] = rng.choice(['split', 'stacked', 'blockwise'])
        op['eta'] = rng.choice([0.05, 0.0875, 0.175])
      elif kind == 'explicit_terms':
        op['moist'] = rng.random() < 0.4
        op['vadv'] = rng.random() >= 0.25
      elif kind == 'step':
        op['eqn'] = rng.choice(['dry', 'dry', 'time', 'moist'])
        op['integrator'] = rng.choice(['backward_forward_euler', 'crank_nicolson_rk2',
                                       'crank_nicolson_rk3', 'imex_rk_sil3'])
        op['filters'] = rng.sample(['exp', 'hdiff'], rng.randint(0, 2))
        op['nsteps'] = rng.randint(1, 3)
        op['method'] = rng.choice([None, None, None, 'dense', 'sparse'])
      ops.append(op)
      continue
    if r < 0.70 or cfg['model']:
      kind = rng.choice(['to_nodal', 'to_nodal', 'to_modal', 'to_modal'] + GRID_OPS_M2M
                        + ['cos_lat_grad', 'div_cos_lat', 'curl_cos_lat',
                           'get_cos_lat_vector', 'vor_div_to_uv_nodal',
                           'uv_nodal_to_vor_div_modal', 'to_nodal_tree', 'integrate'])
      if cfg['grid']['spacing'] == 'equiangular_with_poles' and kind in (
          'vor_div_to_uv_nodal', 'uv_nodal_to_vor_div_modal'):
        kind = 'to_nodal'  # 1/cos(lat) is infinite at the poles in both worlds
      field = rng.choice(FIELDS)
      op = {'op': kind, 'ds': ds, 'field': field}
      if field == '3d':
        # level counts divisible and not divisible by z
        op['levels'] = rng.randint(2, 7)
      if kind in ('cos_lat_grad', 'div_cos_lat', 'curl_cos_lat',
                  'get_cos_lat_vector', 'vor_div_to_uv_nodal',
                  'uv_nodal_to_vor_div_modal'):
        op['clip'] = rng.random() < 0.5
      if kind == 'clip_wavenumbers':
        op['n'] = rng.randint(1, 3)
      ops.append(op)
    elif r < 0.80:
      kind = rng.choice(['exp_filter', 'hdiff_filter', 'exp_step_filter',
                         'hdiff_step_filter', 'exp_leapfrog_step_filter'])
      op = {'op': kind, 'ds': ds, 'levels': rng.randint(1, 5),
            'order': rng.choice([1, 2, 6, 18]) if 'exp' in kind else rng.choice([1, 2, 3]),
            'cutoff': rng.choice([0, 0, 0.4])}
      ops.append(op)
    elif r < 0.92:
      op = {'op': 'cumsum', 'ds': ds, 'reverse': rng.random() < 0.5,
            'axis': rng.choice([0, 0, 1, 2, -1]),
            'spec': rng.choice(['dycore', 'physics', 'z_only', 'x_only', 'y_only', 'zx']),
            'mult': [rng.randint(1, 3) for _ in range(3)],
            'indivisible': rng.random() < 0.1,
            'via': rng.choice(['cumsum', 'sigma_integral'])}
      ops.append(op)
    else:
      op = {'op': 'einsum', 'ds': ds, 'pattern': rng.randrange(9),
            'gather': rng.choice([None, True, False]),
            'reverse': rng.random() < 0.5,
            'mult': [rng.randint(1, 3) for _ in range(4)]}
      ops.append(op)
  return ops


# ----------------------------------------------------------------------------
# worlds
# ----------------------------------------------------------------------------

_WORLD_CACHE = {}


class World:
  """Reference (unsharded, unpadded) and sharded (mesh + padded) twins."""

  def __init__(self, cfg, mesh_factory=None):
    self.cfg = cfg
    mesh_factory = mesh_factory or gen.make_mesh
    self.mesh = (mesh_factory(list(cfg['mesh']) + [cfg.get('mesh_order', 'zxy')])
                 if cfg['mesh'] else None)
    self.grid_ref = gen.build_grid(cfg['grid'], gen.REF_IMPL)
    self.grid_sh = gen.build_grid(cfg['grid'], gen.fast_impl(cfg['knobs']),
                                  mesh=self.mesh)
    self.specs = gen.physics_specs()
    self._model = None

  @property
  def mshape(self):
    return self.grid_sh.modal_shape

  @property
  def nshape(self):
    return self.grid_sh.nodal_shape

  def model(self):
    if self._model is None:
      cfg = self.cfg
      sig = sigma_coordinates.SigmaCoordinates(np.asarray(cfg['sigma']))
      c_ref = coordinate_systems.CoordinateSystem(self.grid_ref, sig)
      c_sh = coordinate_systems.CoordinateSystem(
          gen.build_grid(cfg['grid'], gen.fast_impl(cfg['knobs'])), sig,
          spmd_mesh=self.mesh)
      rs = np.random.RandomState(cfg['state_seed'])
      h = self.specs.nondimensionalize(cfg['oro'] * scales.units.m)
      oro_ref = gen.random_orography(rs, self.grid_ref, h)
      oro_sh = gen.pad_to(oro_ref, c_sh.horizontal.modal_shape)
      self._model = dict(c_ref=c_ref, c_sh=c_sh, oro_ref=oro_ref, oro_sh=oro_sh,
                         tref=np.asarray(cfg['tref']))
    return self._model

  def equation(self, world: str, eqn: str, method, vadv=True):
    m = self.model()
    cls = {'dry': primitive_equations.PrimitiveEquations,
           'time': primitive_equations.PrimitiveEquationsWithTime,
           'moist': primitive_equations.MoistPrimitiveEquations}[eqn]
    return cls(m['tref'], m['oro_' + world], m['c_' + world], self.specs,
               vertical_matmul_method=method, include_vertical_advection=vadv)


def get_world(cfg, mesh_factory=None) -> World:
  key = kernel.sha([{k: cfg.get(k) for k in ('mesh', 'mesh_order', 'grid', 'knobs',
                                              'layers', 'sigma', 'tref', 'oro',
                                              'state_seed')},
                    getattr(mesh_factory, '__name__', None)])
  w = _WORLD_CACHE.get(key)
  if w is None:
    if len(_WORLD_CACHE) > 6:
      _WORLD_CACHE.clear()
    w = _WORLD_CACHE[key] = World(cfg, mesh_factory)
  return w


# ----------------------------------------------------------------------------
# op builders: return (fn_ref, fn_sh, inputs, out_kind)
#   inputs: list of (kind, ref-layout array or pytree); kind in modal/nodal/plain
#   out_kind: 'modal' | 'nodal' | 'plain' applied to all >=2-D leaves
# ----------------------------------------------------------------------------

def _prefix(op, world):
  f = op.get('field', '3d')
  if f == '2d':
    return ()
  if f == 'surf':
    return (1,)
  return (int(op.get('levels', world.cfg['layers'])),)


def build_grid_op(world: World, op):
  rs = np.random.RandomState(op['ds'])
  name = op['op']
  gr, gs = world.grid_ref, world.grid_sh
  pre = _prefix(op, world)
  mod = lambda: gen.random_modal(rs, gr, pre)
  nod = lambda: gen.random_nodal(rs, gr, pre)
  clip = op.get('clip', True)

  def both(f):
    return (lambda *a: f(gr, *a)), (lambda *a: f(gs, *a))

  if name == 'to_nodal':
    fr, fs = both(lambda g, x: g.to_nodal(x))
    return fr, fs, [('modal', mod())], 'nodal'
  if name == 'to_nodal_tree':
    fr, fs = both(lambda g, t: g.to_nodal(t))
    tree = {'a': mod(), 'b': {'c': gen.random_modal(rs, gr, (1,)), 's': np.float64(2.5)}}
    return fr, fs, [('modal', tree)], 'nodal'
  if name == 'to_modal':
    fr, fs = both(lambda g, x: g.to_modal(x))
    return fr, fs, [('nodal', nod())], 'modal'
  if name == 'roundtrip':
    fr, fs = both(lambda g, x: g.to_modal(g.to_nodal(x)))
    return fr, fs, [('modal', mod())], 'modal'
  if name == 'integrate':
    fr, fs = both(lambda g, x: g.integrate(x))
    return fr, fs, [('nodal', nod())], 'plain'
  if name in ('laplacian', 'inverse_laplacian', 'd_dlon', 'cos_lat_d_dlat',
              'sec_lat_d_dlat_cos2'):
    fr, fs = both(lambda g, x: getattr(g, name)(x))
    return fr, fs, [('modal', mod())], 'modal'
  if name == 'clip_wavenumbers':
    n = op.get('n', 1)
    fr, fs = both(lambda g, x: g.clip_wavenumbers(x, n))
    # un-clipped input so that the clip is visible
    x = gen.random_modal(rs, gr, pre, clip_top=False)
    return fr, fs, [('modal', x)], 'modal'
  if name == 'cos_lat_grad':
    fr, fs = both(lambda g, x: g.cos_lat_grad(x, clip=clip))
    return fr, fs, [('modal', mod())], 'modal'
  if name in ('div_cos_lat', 'curl_cos_lat'):
    fr, fs = both(lambda g, u, v: getattr(g, name)((u, v), clip=clip))
    return fr, fs, [('modal', mod()), ('modal', mod())], 'modal'
  if name == 'get_cos_lat_vector':
    fr, fs = both(lambda g, a, b: spherical_harmonic.get_cos_lat_vector(a, b, g, clip=clip))
    return fr, fs, [('modal', mod()), ('modal', mod())], 'modal'
  if name == 'vor_div_to_uv_nodal':
    fr, fs = both(lambda g, a, b: spherical_harmonic.vor_div_to_uv_nodal(g, a, b, clip=clip))
    return fr, fs, [('modal', mod()), ('modal', mod())], 'nodal'
  if name == 'uv_nodal_to_vor_div_modal':
    fr, fs = both(lambda g, a, b: spherical_harmonic.uv_nodal_to_vor_div_modal(g, a, b, clip=clip))
    return fr, fs, [('nodal', nod()), ('nodal', nod())], 'modal'
  raise KeyError(name)


def build_filter_op(world: World, op):
  rs = np.random.RandomState(op['ds'])
  gr, gs = world.grid_ref, world.grid_sh
  name = op['op']
  L = op['levels']
  x = gen.random_modal(rs, gr, (L,), clip_top=False)
  order, cutoff = op['order'], op['cutoff']
  dt = 0.175
  if name == 'exp_filter':
    mk = lambda g: filtering.exponential_filter(g, 16, order, cutoff)
    return (lambda x: mk(gr)(x)), (lambda x: mk(gs)(x)), [('modal', x)], 'modal'
  if name == 'hdiff_filter':
    mk = lambda g: filtering.horizontal_diffusion_filter(g, 0.01, order)
    return (lambda x: mk(gr)(x)), (lambda x: mk(gs)(x)), [('modal', x)], 'modal'
  state = {'v': x, 'surf': gen.random_modal(rs, gr, (1,), clip_top=False),
           't': np.float64(1.25)}
  if name == 'exp_step_filter':
    mk = lambda g: time_integration.exponential_step_filter(g, dt, order=order, cutoff=cutoff)
  elif name == 'hdiff_step_filter':
    mk = lambda g: time_integration.horizontal_diffusion_step_filter(g, dt, tau=0.5, order=order)
  elif name == 'exp_leapfrog_step_filter':
    mk = lambda g: time_integration.exponential_leapfrog_step_filter(g, dt, order=order, cutoff=cutoff)
    fr = lambda s: mk(gr)((s, s), (s, s))
    fs = lambda s: mk(gs)((s, s), (s, s))
    return fr, fs, [('modal', state)], 'modal'
  else:
    raise KeyError(name)
  return (lambda s: mk(gr)(s, s)), (lambda s: mk(gs)(s, s)), [('modal', state)], 'modal'


_SPECS = {
    'dycore': P('z', 'x', 'y'),
    'physics': P(None, ('x', 'z'), 'y'),
    'z_only': P('z', None, None),
    'x_only': P(None, 'x', None),
    'y_only': P(None, None, 'y'),
    'zx': P(('z', 'x'), None, 'y'),
}


def _axis_shards(mesh, entry):
  if entry is None:
    return 1
  if isinstance(entry, tuple):
    n = 1
    for a in entry:
      n *= mesh.shape[a]
    return n
  return mesh.shape[entry]


def build_cumsum_op(world: World, op):
  rs = np.random.RandomState(op['ds'])
  mesh = world.mesh
  spec = _SPECS[op['spec']]
  shape = []
  for i in range(3):
    n = _axis_shards(mesh, spec[i]) if mesh is not None else 1
    shape.append(n * op['mult'][i])
  axis = op['axis']
  ax = axis % 3
  expect_reject = False
  if op.get('indivisible') and mesh is not None and _axis_shards(mesh, spec[ax]) > 1:
    shape[ax] += 1
    expect_reject = True
  x = rs.standard_normal(shape)
  sharding = None if mesh is None else jax.sharding.NamedSharding(mesh, spec)
  rev = op['reverse']
  if op['via'] == 'sigma_integral' and ax == 0 and shape[0] >= 1:
    rng = random.Random(op['ds'])
    sig = sigma_coordinates.SigmaCoordinates(
        np.asarray(gen.draw_sigma_boundaries(rng, shape[0])))
    fr = lambda x: sigma_coordinates.cumulative_sigma_integral(
        x, sig, axis=0, downward=not rev, cumsum_method='jax')
    fs = lambda x: sigma_coordinates.cumulative_sigma_integral(
        x, sig, axis=0, downward=not rev, sharding=sharding)
  else:
    f = jax_numpy_utils.reverse_cumsum if rev else jax_numpy_utils.cumsum
    fr = lambda x: f(x, axis, method='jax')
    fs = lambda x: f(x, axis, method='dot', sharding=sharding)
  return fr, fs, [('plain', x)], 'plain', expect_reject


_EINSUM = [
    # subscripts, rhs_spec, out_spec
    ('ij,jk->ik', P('x', 'y'), P('x', 'y')),
    ('ij,jk->ik', P('y', 'x'), P('y', 'x')),
    ('mjl,zsml->zsmj', P('z', None, 'x', 'y'), P('z', None, 'x', 'y')),
    ('ism,zsmj->zij', P('z', None, 'x', 'y'), P('z', 'x', 'y')),
    ('ism,zij->zsmj', P('z', 'x', 'y'), P('z', None, 'x', 'y')),
    ('mjl,zsmj->zsml', P('z', None, 'x', 'y'), P('z', None, 'x', 'y')),
    ('gh,hml->gml', P('z', 'x', 'y'), P('z', 'x', 'y')),
    ('lgh,hml->gml', P('z', 'x', 'y'), P('z', 'x', 'y')),
    ('im,zmj->zij', P('z', 'x', 'y'), P('z', 'x', 'y')),
]


def build_einsum_op(world: World, op):
  rs = np.random.RandomState(op['ds'])
  mesh = world.mesh
  subs, rhs_spec, out_spec = _EINSUM[op['pattern']]
  ins, outs = subs.split('->')
  lhs_s, rhs_s = ins.split(',')
  mult = {}
  letters = sorted(set(lhs_s + rhs_s + outs))
  for i, ch in enumerate(letters):
    mult[ch] = op['mult'][i % 4]
  size = {}
  for ch in letters:
    n = 1
    if mesh is not None:
      if ch in rhs_s:
        n = max(n, _axis_shards(mesh, rhs_spec[rhs_s.index(ch)]))
      if ch in outs:
        n = max(n, _axis_shards(mesh, out_spec[outs.index(ch)]))
    size[ch] = n * mult[ch]
  if 's' in size:
    size['s'] = 2
  lhs = rs.standard_normal([size[c] for c in lhs_s])
  rhs = rs.standard_normal([size[c] for c in rhs_s])
  fr = lambda rhs: jnp.einsum(subs, lhs, rhs, precision='highest')
  fs = lambda rhs: jax_numpy_utils.sharded_einsum(
      subs, lhs, rhs, mesh=mesh, rhs_spec=rhs_spec, out_spec=out_spec,
      gather_inputs=op['gather'], reverse_arg_order=op['reverse'],
      precision='highest')
  return fr, fs, [('plain', rhs)], 'plain'


def build_model_op(world: World, op):
  name = op['op']
  cfg = world.cfg
  m = world.model()
  gr = world.grid_ref
  rs = np.random.RandomState(op['ds'])
  L = cfg['layers']
  if name == 'diagnostic':
    st = gen.make_pe_state(rs, gr, L, tracers=('q',))
    fr = lambda s: primitive_equations.compute_diagnostic_state(s, m['c_ref'])
    fs = lambda s: primitive_equations.compute_diagnostic_state(s, m['c_sh'])
    return fr, fs, [('modal', st)], 'nodal'
  if name == 'implicit_terms':
    st = gen.make_pe_state(rs, gr, L, tracers=('q',))
    er = world.equation('ref', 'dry', op['method'])
    es = world.equation('sh', 'dry', op['method'])
    return er.implicit_terms, es.implicit_terms, [('modal', st)], 'modal'
  if name == 'implicit_inverse':
    st = gen.make_pe_state(rs, gr, L, tracers=('q',))
    er = world.equation('ref', 'dry', None)
    es = world.equation('sh', 'dry', None)
    eta, meth = op['eta'], op['method']
    return ((lambda s: er.implicit_inverse(s, eta, method=meth)),
            (lambda s: es.implicit_inverse(s, eta, method=meth)),
            [('modal', st)], 'modal')
  if name == 'explicit_terms':
    moist = op['moist']
    tr = ('specific_humidity',) if moist else ('q',)
    st = gen.make_pe_state(rs, gr, L, tracers=tr, with_time=moist,
                           uniform_tracer=('u', 1.5))
    vadv = op.get('vadv', True)
    er = world.equation('ref', 'moist' if moist else 'dry', None, vadv)
    es = world.equation('sh', 'moist' if moist else 'dry', None, vadv)
    return er.explicit_terms, es.explicit_terms, [('modal', st)], 'modal'
  if name == 'sharding_constraints':
    st = gen.make_pe_state(rs, gr, L, tracers=('q',), with_time=True)
    def mk(c):
      def f(s):
        a = c.with_dycore_sharding(s)
        b = c.dycore_to_physics_sharding(a)
        d = c.physics_to_dycore_sharding(b)
        return c.with_physics_sharding(d), d
      return f
    return mk(m['c_ref']), mk(m['c_sh']), [('modal', st)], 'modal'
  if name == 'maybe_transform' and (
      tuple(m['c_sh'].horizontal.modal_shape) == tuple(m['c_sh'].horizontal.nodal_shape)
      or tuple(gr.modal_shape) == tuple(gr.nodal_shape)):
    # maybe_to_nodal / maybe_to_modal decide by shape; when the padded modal and
    # nodal shapes coincide that inference is ambiguous by construction
    name = 'diagnostic'
  if name == 'diagnostic':
    st = gen.make_pe_state(rs, gr, L, tracers=('q',))
    fr = lambda s: primitive_equations.compute_diagnostic_state(s, m['c_ref'])
    fs = lambda s: primitive_equations.compute_diagnostic_state(s, m['c_sh'])
    return fr, fs, [('modal', st)], 'nodal'
  if name == 'maybe_transform':
    st = gen.make_pe_state(rs, gr, L, tracers=('q',), with_time=True)
    def mk(c):
      def f(s):
        nod = coordinate_systems.maybe_to_nodal(s, c)
        nod2 = coordinate_systems.maybe_to_nodal(nod, c)       # already nodal: untouched
        return coordinate_systems.maybe_to_modal(nod2, c)
      return f
    return mk(m['c_ref']), mk(m['c_sh']), [('modal', st)], 'modal'
  if name in ('step', 'step_filters'):
    eqn = op.get('eqn', 'dry')
    tr = ('specific_humidity',) if eqn == 'moist' else ('q',)
    st = gen.make_pe_state(rs, gr, L, tracers=tr, with_time=eqn in ('time', 'moist'),
                           uniform_tracer=('u', 1.5))
    dt = 0.175
    integ = getattr(time_integration, op.get('integrator', 'imex_rk_sil3'))
    flt = op.get('filters', ['exp', 'hdiff'])
    def mk(world_name, grid):
      e = world.equation(world_name, eqn, op.get('method'))
      fl = []
      for f in flt:
        if f == 'exp':
          fl.append(time_integration.exponential_step_filter(grid, dt))
        else:
          fl.append(time_integration.horizontal_diffusion_step_filter(grid, dt, tau=0.5, order=2))
      step = time_integration.step_with_filters(integ(e, dt), fl)
      n = op.get('nsteps', 1)
      return time_integration.repeated(step, n) if n != 1 else step
    return (mk('ref', world.grid_ref), mk('sh', m['c_sh'].horizontal),
            [('modal', st)], 'modal')
  raise KeyError(name)


MODEL_OPS = ('diagnostic', 'implicit_terms', 'implicit_inverse', 'explicit_terms',
             'step', 'step_filters', 'sharding_constraints', 'maybe_transform')
FILTER_OPS = ('exp_filter', 'hdiff_filter', 'exp_step_filter', 'hdiff_step_filter',
              'exp_leapfrog_step_filter')
TRANSFORM_OPS = ('to_nodal', 'to_modal', 'roundtrip', 'to_nodal_tree',
                 'vor_div_to_uv_nodal', 'uv_nodal_to_vor_div_modal') + MODEL_OPS


def build_op(world, op):
  name = op['op']
  expect_reject = False
  if name in MODEL_OPS:
    out = build_model_op(world, op)
  elif name in FILTER_OPS:
    out = build_filter_op(world, op)
  elif name == 'cumsum':
    *out, expect_reject = build_cumsum_op(world, op)
  elif name == 'einsum':
    out = build_einsum_op(world, op)
  else:
    out = build_grid_op(world, op)
  return tuple(out) + (expect_reject,)


# ----------------------------------------------------------------------------
# execution and oracles
# ----------------------------------------------------------------------------

def _lay(world: World, kind, tree):
  if kind == 'modal':
    return gen.pad_tree(tree, world.mshape)
  if kind == 'nodal':
    return gen.pad_tree(tree, world.nshape)
  return tree


def _trim(world: World, kind, tree):
  if kind == 'modal':
    return gen.trim_tree(tree, world.grid_ref.modal_shape)
  if kind == 'nodal':
    return gen.trim_tree(tree, world.grid_ref.nodal_shape)
  return jax.tree_util.tree_map(np.asarray, tree)


def compare_trees(ref, got, in_scale, rtol=RTOL):
  """Returns (ok, worst_rel, where, structural_message)."""
  lr, tr = jax.tree_util.tree_flatten(ref)
  lg, tg = jax.tree_util.tree_flatten(got)
  if tr != tg:
    return False, float('inf'), -1, f'tree structure differs: {tr} vs {tg}'
  worst, where = 0.0, -1
  for i, (a, b) in enumerate(zip(lr, lg)):
    a = np.asarray(a, dtype=np.float64)
    b = np.asarray(b, dtype=np.float64)
    if a.shape != b.shape:
      return False, float('inf'), i, f'leaf {i} shape {b.shape} != reference {a.shape}'
    if a.size == 0:
      continue
    scale = max(float(np.max(np.abs(a))), in_scale, 1e-300)
    if not np.isfinite(b).all():
      return False, float('inf'), i, f'leaf {i} has non-finite resolved values'
    err = float(np.max(np.abs(a - b))) / scale
    if err > worst:
      worst, where = err, i
  return worst <= rtol, worst, where, ''


def _all_finite(tree):
  return all(np.isfinite(np.asarray(l, dtype=np.float64)).all()
             for l in jax.tree_util.tree_leaves(tree))


def _in_scale(inputs):
  s = 0.0
  for _, t in inputs:
    for l in jax.tree_util.tree_leaves(t):
      l = np.asarray(l, dtype=np.float64)
      if l.size:
        s = max(s, float(np.max(np.abs(l))))
  return s


def classify_rejection(world: World, op, exc, expect_reject) -> str | None:
  """Closed whitelist of documented rejections; returns a label or None."""
  msg = f'{type(exc).__name__}: {exc}'
  mesh = world.cfg['mesh']
  if mesh is None:
    return None
  odd_ring = any(a > 1 and a % 2 for a in mesh[1:])
  if isinstance(exc, ValueError) and 'axis_size must be 1 or even' in msg:
    if op['op'] in TRANSFORM_OPS and odd_ring:
      return 'odd_ring_axis'
    if op['op'] == 'einsum':
      subs, rhs_spec, _ = _EINSUM[op['pattern']]
      ins, outs = subs.split('->')
      lhs_s, rhs_s = ins.split(',')
      ring = [rhs_spec[rhs_s.index(ch)] for ch in lhs_s
              if ch not in outs and ch in rhs_s
              and rhs_spec[rhs_s.index(ch)] is not None]
      if len(ring) == 1:
        n = _axis_shards(world.mesh, ring[0])
        if n > 1 and n % 2:
          return 'odd_ring_axis'
    return None
  if expect_reject and ('divisible' in msg or 'divide' in msg):
    return 'indivisible_cumsum_axis'
  return None


def sig_for(world_cfg, op) -> dict:
  mesh = world_cfg['mesh']
  return {'op': op['op'], 'mesh': mesh,
          'padded': True,
          'method': op.get('method'), 'z_gt_1': bool(mesh and mesh[0] > 1),
          'uneven_sigma': bool(np.ptp(np.diff(world_cfg['sigma'])) > 1e-12)}


def exec_op(world: World, op, log) -> list:
  """Runs one op in both worlds; returns violations."""
  fr, fs, inputs, out_kind, expect_reject = build_op(world, op)
  ref_in = [t for _, t in inputs]
  sh_in = [_lay(world, k, t) for k, t in inputs]
  ref_out = jax.jit(fr)(*ref_in)
  ref_out = _trim(world, 'plain', ref_out)
  viols = []
  def viol(oracle, msg, **kw):
    v = kernel.make_violation(PROP, oracle, msg, op=op, sig=sig_for(world.cfg, op), **kw)
    viols.append(v)
  try:
    sh_out_full = jax.jit(fs)(*sh_in)
    sh_out_full = jax.tree_util.tree_map(np.asarray, sh_out_full)
  except Exception as e:  # pylint: disable=broad-except
    label = classify_rejection(world, op, e, expect_reject)
    log.emit('op', op=op, outcome='rejected' if label else 'crash', label=label,
             exc=type(e).__name__)
    if label is None:
      viol('X-OUTCOME', f'sharded execution raised outside the documented '
           f'rejections: {type(e).__name__}: {str(e)[:300]}',
           traceback=traceback.format_exc()[-1200:])
    return viols, ('rejected', label)
  if expect_reject:
    # an indivisible sharded axis must not be silently accepted with wrong values;
    # accepted-and-correct is fine
    pass
  sh_out = _trim(world, out_kind, sh_out_full)
  ok, err, where, smsg = compare_trees(ref_out, sh_out, _in_scale(inputs))
  finite_all = _all_finite(sh_out_full)
  log.emit('op', op=op, outcome='equal' if ok else 'differs',
           out=kernel.tree_hash(sh_out), err=float(f'{err:.3e}') if np.isfinite(err) else -1)
  if not ok:
    viol('X-REFINE', smsg or f'sharded result differs from unsharded after removing '
         f'padding: max rel err {err:.3e} (tol {RTOL}) at leaf {where}',
         max_rel=err, leaf=where)
  if not finite_all:
    viol('X-FINITE', 'sharded output (padding included) contains non-finite values')
  return viols, ('equal' if ok else 'differs', None)


def execute(cfg, ops):
  log = kernel.EventLog()
  log.emit('config', cfg=cfg)
  world = get_world(cfg)
  viols = []
  stats = {'equal': 0, 'differs': 0, 'rejected': {}, 'ops': {}}
  for i, op in enumerate(ops):
    try:
      vs, (outcome, label) = exec_op(world, op, log)
    except Exception as e:  # harness or reference-world failure: not a verdict
      raise RuntimeError(f'op {i} {op} failed in the harness/reference world: '
                         f'{type(e).__name__}: {e}') from e
    for v in vs:
      v['op_index'] = i
    viols.extend(vs)
    stats['ops'][op['op']] = stats['ops'].get(op['op'], 0) + 1
    if outcome == 'rejected':
      stats['rejected'][label or 'crash'] = stats['rejected'].get(label or 'crash', 0) + 1
    else:
      stats[outcome] += 1
  return log, viols, stats


# ----------------------------------------------------------------------------
# shrinking
# ----------------------------------------------------------------------------

def candidates(case):
  cfg, ops = case['config'], case['ops']
  def mk(**kw):
    c = copy.deepcopy(cfg)
    c.update(kw)
    return {'config': c, 'ops': copy.deepcopy(ops)}
  if len(ops) > 1:
    for i in range(len(ops)):
      yield {'config': copy.deepcopy(cfg), 'ops': [copy.deepcopy(ops[i])]}
  mesh = cfg['mesh']
  if mesh:
    for i in range(3):
      if mesh[i] > 1:
        for new in sorted({1, mesh[i] // 2}):
          if new >= 1 and new != mesh[i]:
            m2 = list(mesh)
            m2[i] = new
            c = mk(mesh=m2)
            if cfg['model'] and c['config']['layers'] % m2[0]:
              continue
            yield c
  k = cfg['knobs']
  for key in ('stacked', 'reverse'):
    if k[key] is not None:
      k2 = dict(k)
      k2[key] = None
      yield mk(knobs=k2)
  if k.get('precision') != 'tensorfloat32':
    yield mk(knobs=dict(k, precision='tensorfloat32'))
  if k['base'] not in (None,) and mesh:
    yield mk(knobs=dict(k, base=None))
  g = cfg['grid']
  if g['k'] > 4:
    g2 = dict(g)
    g2['k'] = max(4, g['k'] - 2)
    if g2['kind'] == 'construct':
      g2['g'] = max(g2['g'], 2)
    yield mk(grid=g2)
  if g['spacing'] != 'gauss':
    yield mk(grid=dict(g, spacing='gauss'))
  if g['offset'] != 0.0:
    yield mk(grid=dict(g, offset=0.0))
  if cfg['oro'] != 0.0:
    yield mk(oro=0.0)
  z = mesh[0] if mesh else 1
  if cfg['layers'] > max(2, z) and cfg['model']:
    L = cfg['layers'] - z
    if L >= 1 and L % z == 0:
      yield mk(layers=L, sigma=cfg['sigma'][:L] + [1.0], tref=cfg['tref'][:L])
  if len(ops) == 1:
    op = ops[0]
    for key, simple in (('nsteps', 1), ('filters', []), ('field', '2d'),
                        ('eqn', 'dry'), ('integrator', 'backward_forward_euler'),
                        ('clip', True), ('order', 1)):
      if key in op and op[key] != simple:
        o2 = dict(op)
        o2[key] = simple
        yield {'config': copy.deepcopy(cfg), 'ops': [o2]}
    if op.get('levels', 0) > 2:
      yield {'config': copy.deepcopy(cfg), 'ops': [dict(op, levels=op['levels'] - 1)]}


def minimise(case, oracle):
  def still_fails(c):
    _, vs, _ = execute(c['config'], c['ops'])
    return any(v['oracle'] == oracle for v in vs)
  return kernel.greedy_shrink(case, candidates, still_fails, max_evals=40,
                              max_seconds=150)


# ----------------------------------------------------------------------------
# entry points
# ----------------------------------------------------------------------------

def run_one(seed, tier, opts, prop):
  rng = kernel.sub_rng(seed, 'X')
  cfg = draw_config(rng, opts)
  ops = draw_ops(rng, cfg, int(opts.get('ops', 10)))
  log, viols, stats = execute(cfg, ops)
  out_v = []
  seen = set()
  for v in viols:
    key = (v['oracle'], v['op']['op'])
    if key in seen:
      continue
    seen.add(key)
    case = {'config': cfg, 'ops': [ops[v['op_index']]]}
    mini, evals = (minimise(case, v['oracle'])
                   if len(out_v) < (1 if kernel.violation_flag_set() else MAX_MINIMISED_PER_RUN)
                   else (case, 0))
    mlog, mv, _ = execute(mini['config'], mini['ops'])
    mv = [x for x in mv if x['oracle'] == v['oracle']] or [v]
    rep = {'version': 1, 'property': PROP, 'engine': 'X', 'run_seed': seed,
           'x64': True, 'config': mini['config'], 'ops': mini['ops'],
           'violation': {'property': PROP, 'oracle': v['oracle'],
                         'message': mv[0]['message'], 'sig': mv[0].get('sig')},
           'digest': mlog.digest(),
           'minimised_from': {'config': cfg, 'ops': len(ops), 'shrink_evaluations': evals}}
    path = kernel.write_replay(rep, f"{seed}-{v['oracle']}-{v['op']['op']}")
    vv = {k: mv[0][k] for k in ('property', 'oracle', 'message', 'sig') if k in mv[0]}
    vv['replay'] = path
    out_v.append(vv)
  mesh = cfg['mesh']
  gs = get_world(cfg).grid_sh
  probes = {
      'mesh_' + ('none' if mesh is None else 'x'.join(map(str, mesh))): 1,
      'ring_loop_iterated(axis>=4)': int(bool(mesh and max(mesh[1:]) >= 4)),
      'odd_ring_axis_generated': int(bool(mesh and any(a > 1 and a % 2 for a in mesh[1:]))),
      'z_sharded': int(bool(mesh and mesh[0] > 1)),
      'modal_padding_x>0': int(gs.modal_padding[0] > 0),
      'modal_padding_y>0': int(gs.modal_padding[1] > 0),
      'nodal_padding>0': int(any(p > 0 for p in gs.nodal_padding)),
      'vertical_padding_path': sum(
          1 for o in ops if mesh and o.get('field') == '3d' and o.get('levels', 0) % mesh[0]),
      'tuple_axis_cumsum': sum(1 for o in ops if o['op'] == 'cumsum' and o['spec'] in ('physics', 'zx')),
      'sparse_or_blockwise_path': sum(1 for o in ops if o.get('method') in ('sparse', 'blockwise')
                                      or (o['op'] in ('implicit_terms', 'step') and o.get('method') is None
                                          and mesh and mesh[0] > 1)),
      'sharded_model_steps': sum(o.get('nsteps', 1) for o in ops if o['op'] in ('step', 'step_filters')),
  }
  nontrivial = (stats['equal'] + stats['differs']) > 0 and (mesh is None or any(a > 1 for a in mesh))
  return {
      'digest': log.digest(),
      'sigs': sorted({kernel.sha([cfg['mesh'], cfg['grid'], cfg['knobs'],
                                  {k: v for k, v in o.items() if k != 'ds'}])[:12]
                      for o in ops}) if nontrivial else [],
      'nontrivial': nontrivial,
      'cover': {'ops_equal': stats['equal'], 'ops_differ': stats['differs'],
                'ops_rejected': stats['rejected'], 'op_kinds': stats['ops'],
                'probes': probes},
      'violations': out_v,
      'sample': {'config': cfg, 'ops': ops[:3]},
  }


def replay(rep, opts):
  log, viols, _ = execute(rep['config'], rep['ops'])
  out = [{k: v[k] for k in ('property', 'oracle', 'message', 'sig') if k in v}
         for v in viols]
  return {'digest': log.digest(), 'violations': out}
