"""MANIFEST.setup_cmd: verify the toolchain the checks need (offline, no build step)."""
import sys
import jax, xarray, scipy, fsspec, numpy  # noqa
import dinosaur
print('jax', jax.__version__, 'dinosaur from', dinosaur.__file__)
sys.exit(0)
