"""Which engines run for which property at which tier (no jax import)."""

TOTAL_WORKERS = 16

ENGINE_DEFAULTS = {
    'K': {'engine': 'K', 'devices': 1},
    'X': {'engine': 'X', 'devices': 8},
    'S': {'engine': 'S', 'devices': 1},
    'R': {'engine': 'R', 'devices': 8},
}


def leg(name, engine, runs, **kw):
  d = dict(ENGINE_DEFAULTS[engine])
  d.update(name=name, runs=runs)
  d.update(kw)
  return d


PLANS = {
    'C07': {
        'quick': [
            leg('X', 'X', 40, opts={'ops': 10, 'p_model': 0.3}, weight=10,
                max_workers=9, selftest=2, timeout=2600, deadline=2700),
            leg('S', 'S', 30, opts={'ops': 6, 'p_model': 0.2}, weight=5,
                max_workers=4, selftest=2, timeout=2600, deadline=2700),
            leg('R', 'R', 10, opts={'events': 10}, weight=2, max_workers=3,
                selftest=1, timeout=2600, deadline=2700),
        ],
        'thorough': [
            leg('X', 'X', 320, opts={'ops': 12, 'p_model': 0.35, 'kmax': 21}, weight=9,
                max_workers=8, selftest=4, timeout=7000, deadline=7200),
            leg('S', 'S', 320, opts={'ops': 8, 'p_model': 0.25, 'max_devices': 64,
                                     'max_devices_model': 16, 'kmax': 14}, weight=7,
                max_workers=5, selftest=4, timeout=7000, deadline=7200),
            leg('R', 'R', 60, opts={'events': 14}, weight=2, max_workers=3,
                selftest=2, timeout=7000, deadline=7200),
            # real XLA meshes beyond 8 devices (all (z,x,y) with product <= 16)
            leg('X16', 'X', 40, opts={'ops': 8, 'p_model': 0.15, 'max_devices': 16},
                devices=16, max_workers=2, selftest=1, timeout=7000, deadline=7200),
        ],
        'rule': (
            'Each evaluation is one seeded simulated run: a drawn (z,x,y) mesh '
            '(or padded unsharded layout), grid, layout knobs, level set and a '
            'sequence of operations (transforms, derivatives, cumulative sums, '
            'einsums, filters, implicit/explicit terms, whole filtered steps) '
            'executed sharded and unsharded on the same data. Non-trivial = at '
            'least one operation produced a comparable result on a mesh with '
            'more than one device (or a padded layout); distinct = distinct '
            '(mesh, grid, knobs, operation-with-arguments) signature, data '
            'seeds excluded. Rejected operations count neither as coverage nor '
            'as violations. Engine S counters: s_scheduler_steps = simulated '
            'time in scheduler ticks, s_messages, s_collective_instances, '
            's_faults_fired per kind (delay / stall / duplicate / '
            'duplicate_ignored), s_distinct_schedules = number of distinct '
            'scheduler choice sequences (hash of every run/deliver/fault '
            'decision) over all operations, s_replica_checks = bit-identity '
            'checks between replicas along unused mesh axes. Engine R counters: '
            'r_model_steps, r_sharded_steps, r_simulated_model_seconds.'),
        'real_vs_stub': {
            'real': ['all dinosaur code', 'jax shard_map / GSPMD / XLA CPU '
                     'collectives on 8 host-platform virtual devices (engine X)',
                     'per-device jaxpr evaluation of shard_map bodies (engine S)'],
            'stub': ['engine X: devices are XLA host-platform virtual devices; '
                     'thread interleaving is XLA\'s (verified bit-stable by the '
                     'digest self-test)',
                     'engine S: collectives, transport and device scheduling '
                     'are the simulator\'s; fori_loop is unrolled; code between '
                     'shard_map regions runs on one device'],
        },
        'assumptions': [
            'float64 (jax_enable_x64) comparisons at 1e-9 relative to '
            'max(|reference|, |input|); measured sharded-vs-unsharded gap 2e-16',
            'inputs are admissible: masked, zero padding',
            'documented rejections: odd ring axis > 1 (ValueError axis_size '
            'must be 1 or even), indivisible sharded cumsum axis',
        ],
    },
    'C14': {
        'quick': [
            leg('K', 'K', 96, opts={'cases': 10}, weight=10, max_workers=10,
                selftest=3, timeout=2600, deadline=2700),
            leg('R', 'R', 12, opts={'events': 6, 'kmax': 5, 'light': True}, weight=6,
                max_workers=6, selftest=1, timeout=2600, deadline=2700),
        ],
        'thorough': [
            leg('K', 'K', 1600, opts={'cases': 12}, weight=10, max_workers=10,
                selftest=6, timeout=7000, deadline=7200),
            leg('R', 'R', 120, opts={'events': 8, 'kmax': 6, 'light': True}, weight=6,
                max_workers=6, selftest=2, timeout=7000, deadline=7200),
        ],
        'rule': (
            'Each evaluation is one seeded simulated run = a sequence of '
            'combinator cases (trajectory_from_step / step_with_filters / '
            'repeated / nested_checkpoint_scan values, rejection and gradients '
            '/ accumulate_repeated / digital_filter_initialization) with '
            'recording callbacks, each compared with a plain python loop; in R '
            'legs, an ADVANCE of the real model through the combinators vs the '
            'reference world. A case is non-trivial when it executes at least '
            'one real combinator call and its oracle; distinct = distinct '
            'structural signature (kind, mode, split, nesting factorisation, '
            'scan flavours, filters, post-processing, pytree shape), data '
            'values excluded.'),
        'real_vs_stub': {
            'real': ['dinosaur.time_integration combinators and integrators',
                     'jax.lax.scan / jax.checkpoint / jax.grad',
                     'XLA CPU runtime'],
            'stub': ['step functions, filters and post-processors are '
                     'recording test doubles (int32 affine maps / smooth '
                     'float64 maps)',
                     'python-loop scan flavour stands for a user-supplied '
                     'scan_fn'],
        },
        'assumptions': [
            'under jax.disable_jit() lax.scan calls its body once per '
            'iteration in python (checked by the K-ORDER oracle itself)',
            'int32 arithmetic wraps identically inside and outside scan',
            'float64 comparisons use 1e-11..1e-12 relative tolerance',
        ],
    },
    'C11': {
        'quick': [
            leg('R', 'R', 48, opts={'events': 12}, weight=16, max_workers=16,
                selftest=2, timeout=2600, deadline=2700),
        ],
        'thorough': [
            leg('R', 'R', 640, opts={'events': 16, 'kmax': 12, 'max_steps': 48,
                                     'p_long': 0.1, 'long_steps': 160, 'max_layers': 8},
                weight=16, max_workers=16, selftest=4, timeout=7000, deadline=7200),
        ],
        'rule': (
            'Each evaluation is one seeded simulated model run: equation class '
            '(dry / with time / moist / cloud-moist / shallow water) x integrator '
            'x filter stack x grid x level set x tracer set, driven by a seeded '
            'sequence of operations and injected events (ADVANCE through the '
            'real combinators, FILTER_ONLY, IMPLICIT_SOLVE_ONLY, RECONFIGURE, '
            'CHECKPOINT, CRASH_RESTART from durable bytes, RECOMPILE, RESHARD '
            'to padded layouts / device meshes). Invariant monitors run after '
            'every event in both worlds. Non-trivial = at least one model step '
            'executed and at least one fault event (CRASH_RESTART / RESHARD / '
            'RECOMPILE) fired and the run stayed conclusive; distinct = '
            'distinct (job configuration, event-kind sequence) signature.'),
        'real_vs_stub': {
            'real': ['all dinosaur modules involved (equations, integrators, '
                     'filters, transforms, xarray_utils, pytree_utils)',
                     'XLA CPU runtime (x64), host-platform virtual devices for '
                     'meshes', 'xarray / scipy netCDF3 / fsspec memory://'],
            'stub': ['disk = fsspec in-process memory file system or an '
                     'in-memory dataset copy',
                     'crash = all volatile objects dropped + jax.clear_caches() '
                     'inside one process (not a killed process)',
                     'devices = XLA host-platform virtual devices'],
        },
        'assumptions': [
            'admissible initial states (masked, top wavenumber clipped, zero '
            'mean vorticity/divergence), amplitudes such that a step changes '
            'fields by 1e-2..0.6 relative',
            'invariant tolerances: structural zeros exact; (0,0) drift <= '
            'n*1e-12*scale; uniform tracer <= n*1e-11; clock <= n*1e-11*dt '
            '(measured drift 1e-15..1e-13)',
            'runs whose state grows > 1e3x are classified physically unstable '
            '(inconclusive), not violations',
            'torn / lost writes are not injected (no atomicity property stated)',
        ],
    },
    'C19': {
        'quick': [
            leg('R', 'R', 44, opts={'events': 12}, weight=16, max_workers=13,
                selftest=2, timeout=2600, deadline=2700),
            leg('R32', 'R', 9, opts={'events': 10, 'max_steps': 10}, x64=False,
                max_workers=3, selftest=1, timeout=2600, deadline=2700),
        ],
        'thorough': [
            leg('R', 'R', 560, opts={'events': 16, 'kmax': 12, 'max_layers': 8}, weight=16,
                max_workers=13, selftest=4, timeout=7000, deadline=7200),
            leg('R32', 'R', 120, opts={'events': 12, 'max_steps': 12}, x64=False,
                max_workers=3, selftest=2, timeout=7000, deadline=7200),
        ],
        'rule': (
            'Each evaluation is one seeded simulated model run with a durable / '
            'volatile split: CHECKPOINT (in-memory dataset or netCDF bytes on '
            'fsspec memory://, optional diagnostics), CRASH_RESTART that '
            'rebuilds coordinate system and state from durable bytes only, '
            'ADVANCE with trajectory chunks written with time / sample axes, '
            'CODEC (pytree_utils compositions on the live state, nested '
            'dictionaries with random names / empty branches / separators) and '
            'UPSAMPLE (up/down-sampling to a finer grid). Non-trivial = at '
            'least one checkpoint/restart cycle or codec case executed; '
            'distinct = distinct (job configuration, event-kind sequence).'),
        'real_vs_stub': {
            'real': ['dinosaur.xarray_utils / coordinate_systems / pytree_utils '
                     '/ spherical_harmonic and the model that produces the state',
                     'xarray, scipy netCDF3 backend, fsspec'],
            'stub': ['disk = fsspec memory:// (in-process)',
                     'crash = volatile objects dropped + jax.clear_caches() in '
                     'one process', 'restart script = the harness (looks up the '
                     'spherical-harmonics class by its serialised name in '
                     'GRID_REGISTRY and re-creates the mesh from the serialised '
                     'mesh string)'],
        },
        'assumptions': [
            'grids whose modal and nodal shapes coincide and one-layer nodal '
            'diagnostics are excluded from the dimension-name oracle '
            '(shape-based inference is inherently ambiguous there)',
            'object equality of the reconstructed coordinate system is not '
            'demanded (implementation class and mesh are deliberately not '
            'restored by coordinate_system_from_attrs); only discretisation '
            'fields are compared',
        ],
    },
}
