"""Which engines run for which property at which tier (no jax import)."""

TOTAL_WORKERS = 16

ENGINE_DEFAULTS = {
    'K': {'engine': 'K', 'devices': 1},
    'X': {'engine': 'X', 'devices': 8},
    'S': {'engine': 'S', 'devices': 1},
    'R': {'engine': 'R', 'devices': 8},
}


def leg(name, engine, runs, **kw):
  d = dict(ENGINE_DEFAULTS[engine])
  d.update(name=name, runs=runs)
  d.update(kw)
  return d


PLANS = {
    'C07': {
        'quick': [
            leg('X', 'X', 40, opts={'ops': 10, 'p_model': 0.3}, weight=10,
                max_workers=10, selftest=2, timeout=1700),
            leg('S', 'S', 30, opts={'ops': 6, 'p_model': 0.2}, weight=6,
                max_workers=6, selftest=2, timeout=1700),
        ],
        'thorough': [
            leg('X', 'X', 320, opts={'ops': 12, 'p_model': 0.35}, weight=9,
                max_workers=9, selftest=4, timeout=3400, deadline=3500),
            leg('S', 'S', 320, opts={'ops': 8, 'p_model': 0.25, 'max_devices': 64,
                                     'max_devices_model': 16}, weight=7,
                max_workers=7, selftest=4, timeout=3400, deadline=3500),
        ],
        'rule': (
            'Each evaluation is one seeded simulated run: a drawn (z,x,y) mesh '
            '(or padded unsharded layout), grid, layout knobs, level set and a '
            'sequence of operations (transforms, derivatives, cumulative sums, '
            'einsums, filters, implicit/explicit terms, whole filtered steps) '
            'executed sharded and unsharded on the same data. Non-trivial = at '
            'least one operation produced a comparable result on a mesh with '
            'more than one device (or a padded layout); distinct = distinct '
            '(mesh, grid, knobs, operation-with-arguments) signature, data '
            'seeds excluded. Rejected operations count neither as coverage nor '
            'as violations.'),
        'real_vs_stub': {
            'real': ['all dinosaur code', 'jax shard_map / GSPMD / XLA CPU '
                     'collectives on 8 host-platform virtual devices (engine X)',
                     'per-device jaxpr evaluation of shard_map bodies (engine S)'],
            'stub': ['engine X: devices are XLA host-platform virtual devices; '
                     'thread interleaving is XLA\'s (verified bit-stable by the '
                     'digest self-test)',
                     'engine S: collectives, transport and device scheduling '
                     'are the simulator\'s; fori_loop is unrolled; code between '
                     'shard_map regions runs on one device'],
        },
        'assumptions': [
            'float64 (jax_enable_x64) comparisons at 1e-9 relative to '
            'max(|reference|, |input|); measured sharded-vs-unsharded gap 2e-16',
            'inputs are admissible: masked, zero padding',
            'documented rejections: odd ring axis > 1 (ValueError axis_size '
            'must be 1 or even), indivisible sharded cumsum axis',
        ],
    },
    'C14': {
        'quick': [
            leg('K', 'K', 96, opts={'cases': 10}, weight=3, selftest=3),
        ],
        'thorough': [
            leg('K', 'K', 1600, opts={'cases': 12}, weight=3, selftest=6,
                deadline=3000),
        ],
        'rule': (
            'Each evaluation is one seeded simulated run = a sequence of '
            'combinator cases (trajectory_from_step / step_with_filters / '
            'repeated / nested_checkpoint_scan values, rejection and gradients '
            '/ accumulate_repeated / digital_filter_initialization) with '
            'recording callbacks, each compared with a plain python loop; in R '
            'legs, an ADVANCE of the real model through the combinators vs the '
            'reference world. A case is non-trivial when it executes at least '
            'one real combinator call and its oracle; distinct = distinct '
            'structural signature (kind, mode, split, nesting factorisation, '
            'scan flavours, filters, post-processing, pytree shape), data '
            'values excluded.'),
        'real_vs_stub': {
            'real': ['dinosaur.time_integration combinators and integrators',
                     'jax.lax.scan / jax.checkpoint / jax.grad',
                     'XLA CPU runtime'],
            'stub': ['step functions, filters and post-processors are '
                     'recording test doubles (int32 affine maps / smooth '
                     'float64 maps)',
                     'python-loop scan flavour stands for a user-supplied '
                     'scan_fn'],
        },
        'assumptions': [
            'under jax.disable_jit() lax.scan calls its body once per '
            'iteration in python (checked by the K-ORDER oracle itself)',
            'int32 arithmetic wraps identically inside and outside scan',
            'float64 comparisons use 1e-11..1e-12 relative tolerance',
        ],
    },
}
