"""Which engines run for which property at which tier (no jax import)."""

TOTAL_WORKERS = 16

ENGINE_DEFAULTS = {
    'K': {'engine': 'K', 'devices': 1},
    'X': {'engine': 'X', 'devices': 8},
    'S': {'engine': 'S', 'devices': 1},
    'R': {'engine': 'R', 'devices': 8},
}


def leg(name, engine, runs, **kw):
  d = dict(ENGINE_DEFAULTS[engine])
  d.update(name=name, runs=runs)
  d.update(kw)
  return d


PLANS = {
    'C14': {
        'quick': [
            leg('K', 'K', 96, opts={'cases': 10}, weight=3, selftest=3),
        ],
        'thorough': [
            leg('K', 'K', 1600, opts={'cases': 12}, weight=3, selftest=6,
                deadline=3000),
        ],
        'rule': (
            'Each evaluation is one seeded simulated run = a sequence of '
            'combinator cases (trajectory_from_step / step_with_filters / '
            'repeated / nested_checkpoint_scan values, rejection and gradients '
            '/ accumulate_repeated / digital_filter_initialization) with '
            'recording callbacks, each compared with a plain python loop; in R '
            'legs, an ADVANCE of the real model through the combinators vs the '
            'reference world. A case is non-trivial when it executes at least '
            'one real combinator call and its oracle; distinct = distinct '
            'structural signature (kind, mode, split, nesting factorisation, '
            'scan flavours, filters, post-processing, pytree shape), data '
            'values excluded.'),
        'real_vs_stub': {
            'real': ['dinosaur.time_integration combinators and integrators',
                     'jax.lax.scan / jax.checkpoint / jax.grad',
                     'XLA CPU runtime'],
            'stub': ['step functions, filters and post-processors are '
                     'recording test doubles (int32 affine maps / smooth '
                     'float64 maps)',
                     'python-loop scan flavour stands for a user-supplied '
                     'scan_fn'],
        },
        'assumptions': [
            'under jax.disable_jit() lax.scan calls its body once per '
            'iteration in python (checked by the K-ORDER oracle itself)',
            'int32 arithmetic wraps identically inside and outside scan',
            'float64 comparisons use 1e-11..1e-12 relative tolerance',
        ],
    },
}
