"""Engine K: callback-history harness for the stepping / scan combinators (C14).

Every case drives one real combinator of dinosaur.time_integration with
recording callbacks over exact int32 arithmetic (or smooth float64 bodies for
gradients / weighted sums) and compares with a plain python loop. Under
`jax.disable_jit()` lax.scan executes its body as python calls, so the
invocation history is the genuine one.
"""
from __future__ import annotations

import copy
import functools
import math
import random

import jax
import jax.numpy as jnp
import numpy as np

from dinosaur import time_integration as ti

from dsim import kernel

MAX_MINIMISED_PER_RUN = 2
PROP = 'C14'
I32 = jnp.int32

# ----------------------------------------------------------------------------
# scan flavours
# ----------------------------------------------------------------------------


def py_scan(f, init, xs=None, length=None):
  """A user-supplied scan (python loop) matching the lax.scan API."""
  if xs is None:
    xs_list = [None] * int(length)
  else:
    leaves = jax.tree_util.tree_leaves(xs)
    n = leaves[0].shape[0] if leaves else int(length)
    xs_list = [jax.tree_util.tree_map(lambda a, i=i: a[i], xs) for i in range(n)]
  carry = init
  ys = []
  for x in xs_list:
    carry, y = f(carry, x)
    ys.append(y)
  stacked = jax.tree_util.tree_map(lambda *a: jnp.stack(a), *ys)
  return carry, stacked


def make_scan(flavour):
  """flavour: 'lax' | 'py' | ['nested', [factors], ckpt(bool), base('lax'|'py')]."""
  if flavour == 'lax':
    return jax.lax.scan
  if flavour == 'py':
    return py_scan
  _, factors, ckpt, base = flavour
  return functools.partial(
      ti.nested_checkpoint_scan,
      nested_lengths=list(factors),
      scan_fn=make_scan(base),
      checkpoint_fn=jax.checkpoint if ckpt else (lambda f: f),
  )


def factorisations(n: int, max_factors: int = 3):
  """All ordered factorisations of n into 1..max_factors factors (each >= 1)."""
  out = [[n]]
  if max_factors >= 2:
    for a in range(1, n + 1):
      if n % a == 0:
        out.append([a, n // a])
        if max_factors >= 3:
          m = n // a
          for b in range(1, m + 1):
            if m % b == 0:
              out.append([a, b, m // b])
  # dedupe keeping order
  seen, res = set(), []
  for f in out:
    t = tuple(f)
    if t not in seen:
      seen.add(t)
      res.append(f)
  return res


# ----------------------------------------------------------------------------
# exact integer world: states, steps, filters
# ----------------------------------------------------------------------------

def make_state(shape_kind: str, seed: int):
  rng = np.random.RandomState(seed % (2**31))
  def arr(*shape):
    return jnp.asarray(rng.randint(-50, 50, size=shape), dtype=I32)
  n = jnp.asarray(rng.randint(0, 5), dtype=I32)
  if shape_kind == 'flat':
    return {'n': n, 'v': arr(3)}
  if shape_kind == 'nested':
    return {'n': n, 'v': arr(2, 3), 'sub': {'w': arr(4), 'e': {}}}
  if shape_kind == 'tuple':
    return (n, arr(5), (arr(2, 2),))
  raise ValueError(shape_kind)


def _counter(state):
  return jax.tree_util.tree_leaves(state)[0] if not isinstance(state, dict) else state['n']


def _map_arrays(fn, state, *rest):
  """Apply fn to every non-counter leaf; counter handled by caller."""
  leaves, treedef = jax.tree_util.tree_flatten(state)
  rest_leaves = [jax.tree_util.tree_flatten(r)[0] for r in rest]
  # counter is the scalar int leaf named 'n' (dict) or first leaf (tuple)
  cidx = _counter_index(state)
  out = []
  for i, l in enumerate(leaves):
    if i == cidx:
      out.append(l)
    else:
      out.append(fn(l, *[r[i] for r in rest_leaves]))
  return jax.tree_util.tree_unflatten(treedef, out), cidx


def _counter_index(state):
  if isinstance(state, dict):
    keys = sorted(state.keys())
    # jax flattens dicts in sorted key order; nested dicts contribute leaves in place
    idx = 0
    for k in keys:
      if k == 'n':
        return idx
      idx += len(jax.tree_util.tree_leaves(state[k]))
    raise KeyError('n')
  return 0


def _with_counter(state, cidx, value):
  leaves, treedef = jax.tree_util.tree_flatten(state)
  leaves[cidx] = value
  return jax.tree_util.tree_unflatten(treedef, leaves)


class Recorder:
  def __init__(self, enabled: bool):
    self.enabled = enabled
    self.log = []

  def add(self, *entry):
    if self.enabled:
      self.log.append(list(entry))


def make_step(a: int, b: int, rec: Recorder):
  def step(u):
    n = _counter(u)
    if rec.enabled:
      rec.add('step', int(n))
    out, cidx = _map_arrays(lambda v: I32(a) * v + I32(b) + n, u)
    return _with_counter(out, cidx, n + I32(1))
  return step


def make_filter(i: int, c: int, d: int, rec: Recorder):
  def filt(u, u_next):
    if rec.enabled:
      rec.add('f', i, int(_counter(u_next)), int(_counter(u)))
    out, _ = _map_arrays(lambda vn, v: I32(c) * vn + I32(d) + I32(3) * v,
                         u_next, u)
    return out
  return filt


def make_post(kind: str, rec: Recorder):
  if kind == 'none':
    return None
  def post(frame):
    if rec.enabled:
      rec.add('pp', int(_counter(frame)))
    leaves = jax.tree_util.tree_leaves(frame)
    if kind == 'affine':
      return jax.tree_util.tree_map(lambda x: I32(7) * x + I32(1), frame)
    # restructure: different tree
    return {'count': leaves[0], 'first': leaves[1] * I32(2)}
  return post


def tree_equal(a, b) -> bool:
  la, ta = jax.tree_util.tree_flatten(a)
  lb, tb = jax.tree_util.tree_flatten(b)
  if ta != tb or len(la) != len(lb):
    return False
  for x, y in zip(la, lb):
    x, y = np.asarray(x), np.asarray(y)
    if x.shape != y.shape or x.dtype != y.dtype or not np.array_equal(x, y):
      return False
  return True


def tree_close(a, b, rtol) -> tuple[bool, float]:
  la, ta = jax.tree_util.tree_flatten(a)
  lb, tb = jax.tree_util.tree_flatten(b)
  if ta != tb or len(la) != len(lb):
    return False, float('inf')
  worst = 0.0
  for x, y in zip(la, lb):
    x, y = np.asarray(x, dtype=np.float64), np.asarray(y, dtype=np.float64)
    if x.shape != y.shape:
      return False, float('inf')
    if not (np.isfinite(x).all() and np.isfinite(y).all()):
      return False, float('inf')
    scale = max(1.0, float(np.max(np.abs(y))) if y.size else 1.0)
    err = float(np.max(np.abs(x - y))) / scale if x.size else 0.0
    worst = max(worst, err)
  return worst <= rtol, worst


def stack_frames(frames):
  return jax.tree_util.tree_map(lambda *a: jnp.stack(a), *frames)


# ----------------------------------------------------------------------------
# case generation
# ----------------------------------------------------------------------------

KINDS = ['traj', 'traj', 'traj', 'traj', 'repeated', 'nested', 'nested',
         'nested_grad', 'accum', 'dfi', 'dfi_steady', 'nested_reject', 'swf']


def gen_flavour(rng: random.Random, length: int, eager: bool, allow_zero=True):
  choices = ['lax', 'py']
  if length >= 1:
    choices += ['nested', 'nested']
  f = rng.choice(choices)
  if length == 0 and f == 'py':
    f = 'lax'
  if f != 'nested':
    return f
  factors = rng.choice(factorisations(length, 3))
  ckpt = False if eager else rng.random() < 0.6
  base = rng.choice(['lax', 'py']) if all(x >= 1 for x in factors) else 'lax'
  return ['nested', factors, ckpt, base]


def gen_case(rng: random.Random) -> dict:
  kind = rng.choice(KINDS)
  mode = rng.choice(['eager', 'jit'])
  c = {'kind': kind, 'mode': mode, 'data_seed': rng.randrange(1 << 30)}
  if kind == 'traj':
    eager = mode == 'eager'
    lo = 1 if eager else (0 if rng.random() < 0.12 else 1)
    c['outer'] = rng.randint(lo, 6)
    c['inner'] = rng.randint(lo, 6)
    c['start_with_input'] = rng.random() < 0.5
    c['nfilters'] = rng.randint(0, 3)
    c['post'] = rng.choice(['none', 'none', 'affine', 'restructure'])
    c['shape'] = rng.choice(['flat', 'nested', 'tuple'])
    c['outer_scan'] = gen_flavour(rng, c['outer'], eager)
    c['inner_scan'] = gen_flavour(rng, c['inner'], eager)
    c['coef'] = [rng.randint(2, 9), rng.randint(1, 9)]
    c['fcoef'] = [[rng.randint(2, 9), rng.randint(1, 9)] for _ in range(c['nfilters'])]
  elif kind == 'swf':
    c['nfilters'] = rng.randint(0, 4)
    c['shape'] = rng.choice(['flat', 'nested', 'tuple'])
    c['coef'] = [rng.randint(2, 9), rng.randint(1, 9)]
    c['fcoef'] = [[rng.randint(2, 9), rng.randint(1, 9)] for _ in range(c['nfilters'])]
  elif kind == 'repeated':
    eager = mode == 'eager'
    c['steps'] = rng.randint(1 if eager else 0, 7)
    c['shape'] = rng.choice(['flat', 'nested', 'tuple'])
    c['scan'] = gen_flavour(rng, c['steps'], eager)
    c['coef'] = [rng.randint(2, 9), rng.randint(1, 9)]
  elif kind in ('nested', 'nested_grad'):
    nf = rng.randint(1, 3)
    factors = [rng.randint(1, 4) for _ in range(nf)]
    if kind == 'nested_grad':
      c['mode'] = 'jit' if rng.random() < 0.7 else 'trace'
      factors = [rng.randint(1, 3) for _ in range(nf)]
    c['factors'] = factors
    c['pass_length'] = rng.random() < 0.5
    c['xs'] = rng.choice(['dict', 'dict2', 'array', 'none']) if kind == 'nested' else 'array'
    c['ckpt'] = (rng.random() < 0.6) if c['mode'] != 'eager' else False
    c['base'] = rng.choice(['lax', 'py'])
    c['dim'] = rng.randint(1, 4)
  elif kind == 'nested_reject':
    nf = rng.randint(1, 3)
    c['factors'] = [rng.randint(1, 4) for _ in range(nf)]
    c['delta'] = rng.choice([-1, 1, 2])
  elif kind == 'accum':
    c['n'] = rng.randint(1, 7)
    c['exact'] = rng.random() < 0.5
    c['scan'] = rng.choice(['lax', 'py'])
    c['shape'] = rng.choice(['flat', 'nested', 'tuple'])
    c['coef'] = [rng.randint(2, 5), rng.randint(1, 9)]
  elif kind in ('dfi', 'dfi_steady'):
    c['mode'] = 'jit' if rng.random() < 0.5 else 'eager'
    c['dim'] = rng.randint(1, 4)
    c['N'] = rng.randint(1, 6)
    c['dt'] = rng.choice([0.01, 0.02, 0.05, 0.1, 0.2])
    c['decimal_span'] = rng.random() < 0.6
    c['cutoff_factor'] = rng.choice([0.5, 1.0, 2.0])
    c['solver'] = rng.choice(['backward_forward_euler', 'crank_nicolson_rk2',
                              'crank_nicolson_rk3', 'crank_nicolson_rk4',
                              'imex_rk_sil3'])
    c['nfilters'] = rng.randint(0, 2)
  return c


# ----------------------------------------------------------------------------
# case execution
# ----------------------------------------------------------------------------

def _viol(oracle, msg, **kw):
  return kernel.make_violation(PROP, oracle, msg, **kw)


def run_traj(c, log):
  eager = c['mode'] == 'eager'
  rec = Recorder(eager)
  step = make_step(*c['coef'], rec)
  filters = [make_filter(i, fc[0], fc[1], rec) for i, fc in enumerate(c['fcoef'])]
  post = make_post(c['post'], rec)
  x0 = make_state(c['shape'], c['data_seed'])
  kwargs = dict(start_with_input=c['start_with_input'],
                outer_scan_fn=make_scan(c['outer_scan']),
                inner_scan_fn=make_scan(c['inner_scan']))
  if post is not None:
    kwargs['post_process_fn'] = post
  fn = ti.trajectory_from_step(ti.step_with_filters(step, filters),
                               c['outer'], c['inner'], **kwargs)
  if eager:
    with jax.disable_jit():
      final, frames = fn(x0)
  else:
    final, frames = jax.jit(fn)(x0)
  got_log = rec.log
  # ---- reference: plain python loop (no combinators)
  ref_rec = Recorder(False)
  rstep = make_step(*c['coef'], ref_rec)
  rfilters = [make_filter(i, fc[0], fc[1], ref_rec) for i, fc in enumerate(c['fcoef'])]
  rpost = make_post(c['post'], ref_rec)
  states = [x0]
  u = x0
  for _ in range(c['outer'] * c['inner']):
    un = rstep(u)
    for f in rfilters:
      un = f(u, un)
    u = un
    states.append(u)
  want_frames = []
  for k in range(c['outer']):
    idx = k * c['inner'] if c['start_with_input'] else (k + 1) * c['inner']
    fr = states[idx]
    want_frames.append(rpost(fr) if rpost is not None else fr)
  viols = []
  log.emit('traj-out', final=kernel.tree_hash(final), frames=kernel.tree_hash(frames))
  if not tree_equal(final, states[-1]):
    viols.append(_viol('K-FINAL', 'final state of trajectory_from_step differs '
                       'from the sequential loop', case=c))
  if c['outer'] >= 1:
    if not tree_equal(frames, stack_frames(want_frames)):
      # locate first differing frame for the message
      bad = None
      try:
        for k in range(c['outer']):
          fk = jax.tree_util.tree_map(lambda a, k=k: a[k], frames)
          if not tree_equal(fk, want_frames[k]):
            bad = k
            break
      except Exception:
        bad = -1
      viols.append(_viol('K-FRAMES', f'frame {bad} differs from state after '
                         f'k*inner/(k+1)*inner steps of the sequential loop', case=c))
  else:
    leaves = jax.tree_util.tree_leaves(frames)
    if any(l.shape[0] != 0 for l in leaves):
      viols.append(_viol('K-FRAMES', 'outer_steps=0 must give empty frames', case=c))
  if eager:
    n0 = int(_counter(x0))
    want = []
    for t in range(c['outer'] * c['inner']):
      want.append(['step', n0 + t])
      for i in range(len(filters)):
        want.append(['f', i, n0 + t + 1, n0 + t])
    got_steps = [e for e in got_log if e[0] != 'pp']
    log.emit('traj-log', n=len(got_log), h=kernel.sha(got_log)[:16])
    if got_steps != want:
      viols.append(_viol('K-ORDER', 'step/filter invocation history differs from '
                         '(step, f_1..f_k) repeated outer*inner times',
                         case=c, got=got_steps[:12], want=want[:12]))
    if post is not None:
      got_pp = [e[1] for e in got_log if e[0] == 'pp']
      want_pp = [n0 + (k * c['inner'] if c['start_with_input'] else (k + 1) * c['inner'])
                 for k in range(c['outer'])]
      if got_pp != want_pp:
        viols.append(_viol('K-ORDER', 'post_process_fn not called once per saved '
                           'frame on the right frame', case=c, got=got_pp, want=want_pp))
  return viols


def run_swf(c, log):
  rec = Recorder(True)
  step = make_step(*c['coef'], rec)
  filters = [make_filter(i, fc[0], fc[1], rec) for i, fc in enumerate(c['fcoef'])]
  x0 = make_state(c['shape'], c['data_seed'])
  fn = ti.step_with_filters(step, filters)
  with jax.disable_jit():
    got = fn(x0)
  got_log = rec.log
  ref_rec = Recorder(False)
  un = make_step(*c['coef'], ref_rec)(x0)
  for i, fc in enumerate(c['fcoef']):
    un = make_filter(i, fc[0], fc[1], ref_rec)(x0, un)
  n0 = int(_counter(x0))
  want = [['step', n0]] + [['f', i, n0 + 1, n0] for i in range(len(filters))]
  viols = []
  log.emit('swf-out', h=kernel.tree_hash(got))
  if got_log != want:
    viols.append(_viol('K-ORDER', 'step_with_filters does not apply filters in order '
                       'after the step', case=c, got=got_log, want=want))
  if not tree_equal(got, un):
    viols.append(_viol('K-FINAL', 'step_with_filters value differs from sequential '
                       'application', case=c))
  return viols


def run_repeated(c, log):
  eager = c['mode'] == 'eager'
  rec = Recorder(eager)
  step = make_step(*c['coef'], rec)
  x0 = make_state(c['shape'], c['data_seed'])
  fn = ti.repeated(step, c['steps'], make_scan(c['scan']))
  if eager:
    with jax.disable_jit():
      got = fn(x0)
  else:
    got = jax.jit(fn)(x0)
  u = x0
  rstep = make_step(*c['coef'], Recorder(False))
  for _ in range(c['steps']):
    u = rstep(u)
  viols = []
  log.emit('rep-out', h=kernel.tree_hash(got))
  if not tree_equal(got, u):
    viols.append(_viol('K-REPEAT', f"repeated(f, {c['steps']}) != {c['steps']} applications", case=c))
  if eager:
    n0 = int(_counter(x0))
    want = [['step', n0 + t] for t in range(c['steps'])]
    if rec.log != want:
      viols.append(_viol('K-ORDER', 'repeated(): invocation history is not n '
                         'consecutive calls', case=c, got=rec.log[:10], want=want[:10]))
  return viols


def _nested_body(rec: Recorder, exact: bool):
  def f(carry, x):
    if exact and isinstance(x, dict) and 'row' in x:
      # two scanned leaves of equal size but different per-step shapes
      outer = x['col'] * x['row']                       # (d, 1) * (1, d) -> (d, d)
      if rec.enabled:
        rec.add('f', int(carry['k']))
      new = {'k': carry['k'] + I32(1),
             'c': I32(3) * carry['c'] + I32(1) + jnp.sum(outer, axis=0).astype(I32)
                  + outer[:, 0] + carry['k']}
      y = {'y': new['c'] * I32(2) + carry['k'], 'z': outer + carry['k']}
      return new, y
    if exact:
      xv = 0 if x is None else sum(jnp.sum(jnp.asarray(l, I32)) * I32(i + 1)
                                   for i, l in enumerate(jax.tree_util.tree_leaves(x)))
      if rec.enabled:
        rec.add('f', int(carry['k']))
      new = {'k': carry['k'] + I32(1),
             'c': I32(3) * carry['c'] + I32(1) + jnp.sum(jnp.asarray(xv, I32)).astype(I32) + carry['k']}
      y = {'y': new['c'] * I32(2) + carry['k'], 'z': jnp.stack([carry['k'], new['k']])}
      return new, y
    raise NotImplementedError
  return f


def run_nested(c, log):
  eager = c['mode'] == 'eager'
  rec = Recorder(eager)
  L = math.prod(c['factors'])
  rng = np.random.RandomState(c['data_seed'] % (2**31))
  dim = c['dim']
  if c['xs'] == 'none':
    xs = None
  elif c['xs'] == 'array':
    xs = jnp.asarray(np.arange(L * dim).reshape(L, dim) * 7 + 1, I32)
  elif c['xs'] == 'dict2':
    xs = {'col': jnp.asarray((np.arange(L * dim) * 3 + 1).reshape(L, dim, 1), I32),
          'row': jnp.asarray((np.arange(L * dim) * 7 + 2).reshape(L, 1, dim), I32)}
  else:
    xs = {'a': jnp.asarray(np.arange(L * dim).reshape(L, dim) * 5 + 2, I32),
          'b': jnp.asarray(np.arange(L) * 11 + 3, I32)}
  init = {'k': jnp.asarray(rng.randint(0, 4), I32),
          'c': jnp.asarray(rng.randint(-9, 9, size=(dim,)), I32)}
  f = _nested_body(rec, True)
  kwargs = dict(nested_lengths=list(c['factors']), scan_fn=make_scan(c['base']),
                checkpoint_fn=jax.checkpoint if c['ckpt'] else (lambda g: g))
  length = L if (c['pass_length'] or xs is None) else None
  call = lambda init, xs: ti.nested_checkpoint_scan(f, init, xs, length, **kwargs)
  if eager:
    with jax.disable_jit():
      carry, ys = call(init, xs)
  else:
    carry, ys = jax.jit(call)(init, xs)
  # reference
  rf = _nested_body(Recorder(False), True)
  cr = init
  outs = []
  for i in range(L):
    x = None if xs is None else jax.tree_util.tree_map(lambda a, i=i: a[i], xs)
    cr, y = rf(cr, x)
    outs.append(y)
  want_ys = stack_frames(outs)
  viols = []
  log.emit('nested-out', carry=kernel.tree_hash(carry), ys=kernel.tree_hash(ys))
  if not tree_equal(carry, cr):
    viols.append(_viol('K-NESTED', 'nested_checkpoint_scan carry differs from flat loop', case=c))
  if not tree_equal(ys, want_ys):
    viols.append(_viol('K-NESTED', 'nested_checkpoint_scan stacked outputs differ '
                       'from flat loop', case=c))
  if eager:
    k0 = int(init['k'])
    want = [['f', k0 + i] for i in range(L)]
    if rec.log != want:
      viols.append(_viol('K-ORDER', 'nested scan body not invoked exactly once per '
                         'element in order', case=c, got=rec.log[:12], want=want[:12]))
  return viols


def run_nested_reject(c, log):
  L = math.prod(c['factors'])
  bad = L + c['delta']
  if bad < 0:
    bad = L + 1
  f = lambda carry, x: (carry + 1, carry)
  try:
    ti.nested_checkpoint_scan(f, jnp.asarray(0, I32), None, bad,
                              nested_lengths=list(c['factors']))
  except ValueError:
    log.emit('reject', ok=True)
    return []
  except Exception as e:  # wrong exception type is still a rejection
    log.emit('reject', ok=True, exc=type(e).__name__)
    return []
  return [_viol('K-NESTED', f'inconsistent length={bad} vs nested_lengths='
                f"{c['factors']} was not rejected", case=c)]


def run_nested_grad(c, log):
  L = math.prod(c['factors'])
  dim = c['dim']
  rng = np.random.RandomState(c['data_seed'] % (2**31))
  theta = jnp.asarray(rng.uniform(0.5, 1.5, size=(dim,)))
  init = jnp.asarray(rng.uniform(-1, 1, size=(dim,)))
  xs = jnp.asarray(rng.uniform(-1, 1, size=(L, dim)))
  wts = jnp.asarray(rng.uniform(0.5, 1.5, size=(L, dim)))

  def body(theta):
    def f(carry, x):
      # bounded for every length (|new| <= 1.3): no blow-up for long scans
      new = jnp.tanh(theta * carry + x) + 0.3 * jnp.sin(carry * jnp.roll(carry, 1))
      return new, jnp.sin(new) * x + carry
    return f

  def loss(scan_impl, theta, init, xs):
    carry, ys = scan_impl(body(theta), init, xs)
    return jnp.sum(carry ** 2) + jnp.sum(ys * wts)

  nested = functools.partial(
      ti.nested_checkpoint_scan, nested_lengths=list(c['factors']),
      scan_fn=make_scan(c['base']),
      checkpoint_fn=jax.checkpoint if c['ckpt'] else (lambda g: g))
  def flat(f, init, xs):
    carry = init
    ys = []
    for i in range(L):
      carry, y = f(carry, xs[i])
      ys.append(y)
    return carry, jnp.stack(ys)
  g_n = jax.grad(functools.partial(loss, nested), argnums=(0, 1, 2))
  g_f = jax.grad(functools.partial(loss, flat), argnums=(0, 1, 2))
  v_n = functools.partial(loss, nested)
  if c['mode'] == 'jit':
    g_n = jax.jit(g_n)
    v_n = jax.jit(v_n)
  gn = g_n(theta, init, xs)
  gf = g_f(theta, init, xs)
  vn = v_n(theta, init, xs)
  vf = loss(flat, theta, init, xs)
  viols = []
  log.emit('grad-out', h=kernel.tree_hash(gn))
  ok, err = tree_close(gn, gf, 1e-11)
  if not ok:
    viols.append(_viol('K-NESTED-GRAD', f'gradient through nested_checkpoint_scan '
                       f'differs from flat loop gradient (rel err {err:.3e})', case=c))
  ok, err = tree_close(vn, vf, 1e-12)
  if not ok:
    viols.append(_viol('K-NESTED', f'value through nested scan differs (rel err {err:.3e})', case=c))
  return viols


def run_accum(c, log):
  rng = np.random.RandomState(c['data_seed'] % (2**31))
  n = c['n']
  viols = []
  if c['exact']:
    rec = Recorder(False)
    step = make_step(*c['coef'], rec)
    x0 = make_state(c['shape'], c['data_seed'])
    w = jnp.asarray(rng.randint(-4, 5, size=(n,)), I32)
    if c['mode'] == 'eager':
      with jax.disable_jit():
        got = ti.accumulate_repeated(step, w, x0, make_scan(c['scan']))
    else:
      got = jax.jit(lambda w, x: ti.accumulate_repeated(step, w, x, make_scan(c['scan'])))(w, x0)
    u = x0
    acc = jax.tree_util.tree_map(jnp.zeros_like, x0)
    for k in range(n):
      u = step(u)
      acc = jax.tree_util.tree_map(lambda a, s, k=k: a + w[k] * s, acc, u)
    log.emit('accum-out', h=kernel.tree_hash(got))
    if not tree_equal(got, acc):
      viols.append(_viol('K-ACCUM', 'accumulate_repeated != sum_k w_k f^k(x) (exact ints)', case=c))
  else:
    d = 3
    A = jnp.asarray(rng.uniform(-0.5, 0.5, size=(d, d)))
    step = lambda s: {'x': jnp.tanh(A @ s['x']) + 0.1, 'y': s['y'] * 0.9 + s['x'][0]}
    x0 = {'x': jnp.asarray(rng.uniform(-1, 1, size=(d,))), 'y': jnp.asarray(0.3)}
    w = jnp.asarray(rng.uniform(-1, 1, size=(n,)))
    fn = lambda w, x: ti.accumulate_repeated(step, w, x, make_scan(c['scan']))
    got = fn(w, x0) if c['mode'] == 'eager' else jax.jit(fn)(w, x0)
    u = x0
    acc = jax.tree_util.tree_map(jnp.zeros_like, x0)
    for k in range(n):
      u = step(u)
      acc = jax.tree_util.tree_map(lambda a, s, k=k: a + w[k] * s, acc, u)
    log.emit('accum-out', h=kernel.tree_hash(got))
    ok, err = tree_close(got, acc, 1e-12)
    if not ok:
      viols.append(_viol('K-ACCUM', f'accumulate_repeated != sum_k w_k f^k(x) (rel err {err:.2e})', case=c))
  return viols


def _sinc(x):
  x = np.asarray(x, dtype=np.float64)
  out = np.ones_like(x)
  nz = x != 0
  out[nz] = np.sin(np.pi * x[nz]) / (np.pi * x[nz])
  return out


def run_dfi(c, log, steady: bool):
  rng = np.random.RandomState(c['data_seed'] % (2**31))
  d = c['dim']
  dt = c['dt']
  N = c['N']
  time_span = 2 * dt * N
  if c.get('decimal_span'):
    # the way a user writes it: a decimal literal such as 0.6 (whose quotient
    # by 2*dt may land one ulp below the integer)
    time_span = float(repr(round(time_span, 10)))
  cutoff = time_span * c['cutoff_factor']
  D = jnp.asarray(rng.uniform(0.1, 2.0, size=(d,)))
  S = rng.uniform(-1, 1, size=(d, d))
  A = jnp.asarray(S - S.T)
  xstar = jnp.asarray(rng.uniform(0.5, 1.5, size=(d,)))
  if steady:
    F = lambda s: {'x': D * xstar + 0.7 * (s['x'] - xstar) ** 2 + A @ (s['x'] - xstar)}
  else:
    F = lambda s: {'x': A @ s['x'] + 0.2 * jnp.sin(s['x'])}
  G = lambda s: {'x': -D * s['x']}
  Ginv = lambda s, eta: {'x': s['x'] / (1 + eta * D)}
  eq = ti.ImplicitExplicitODE.from_functions(F, G, Ginv)
  solver = getattr(ti, c['solver'])
  if steady:
    fvals = [1.0] * c['nfilters']  # steady state must survive: identity-valued filters
  else:
    fvals = [0.97, 0.9][:c['nfilters']]
  filters = [ti.runge_kutta_step_filter(
      lambda s, fv=fv: jax.tree_util.tree_map(lambda a: fv * a, s)) for fv in fvals]
  x0 = {'x': xstar if steady else jnp.asarray(rng.uniform(-1, 1, size=(d,)))}
  fn = ti.digital_filter_initialization(eq, solver, filters, time_span, cutoff, dt)
  if c['mode'] == 'jit':
    got = jax.jit(fn)(x0)
  else:
    with jax.disable_jit():
      got = fn(x0)
  log.emit('dfi-out', h=kernel.tree_hash(got))
  viols = []
  # a second, freshly constructed evaluation in the same process must give the
  # same answer (no state may leak from one initialisation to the next)
  fn2 = ti.digital_filter_initialization(eq, solver, filters, time_span, cutoff, dt)
  if c['mode'] == 'jit':
    got2 = jax.jit(fn2)(x0)
  else:
    with jax.disable_jit():
      got2 = fn2(x0)
  ok2, err2 = tree_close(got2, got, 1e-13)
  if not ok2:
    viols.append(_viol('K-DFI', f'second evaluation of DFI with the same parameters '
                       f'differs from the first (rel err {err2:.2e})', case=c))
  if steady:
    ok, err = tree_close(got, x0, 1e-11)
    if not ok:
      viols.append(_viol('K-DFI-STEADY', f'DFI changed a steady state (rel err {err:.2e})', case=c))
    return viols
  # defining sum, built without TimeReversedImExODE / accumulate_repeated
  n = np.arange(1, N + 1)
  w = _sinc(n / (N + 1)) * _sinc(n * time_span / (cutoff * N))
  total = 1.0 + 2 * w.sum()
  def run(eqn):
    step = solver(eqn, dt)
    u = x0
    acc = jax.tree_util.tree_map(jnp.zeros_like, x0)
    for k in range(N):
      un = step(u)
      for fv in fvals:
        un = jax.tree_util.tree_map(lambda a, fv=fv: fv * a, un)
      u = un
      acc = jax.tree_util.tree_map(lambda a, s, k=k: a + w[k] * s, acc, u)
    return acc
  rev = ti.ImplicitExplicitODE.from_functions(
      lambda s: jax.tree_util.tree_map(jnp.negative, F(s)),
      lambda s: jax.tree_util.tree_map(jnp.negative, G(s)),
      lambda s, eta: Ginv(s, -eta))
  fwd, bwd = run(eq), run(rev)
  want = jax.tree_util.tree_map(lambda a, b, c_: (a + b + c_) / total, x0, fwd, bwd)
  ok, err = tree_close(got, want, 1e-11)
  if not ok:
    viols.append(_viol('K-DFI', f'DFI differs from its defining normalised sum '
                       f'(rel err {err:.2e})', case=c))
  return viols


def run_case(c, log) -> list:
  log.emit('case', case=c)
  k = c['kind']
  try:
    if k == 'traj':
      return run_traj(c, log)
    if k == 'swf':
      return run_swf(c, log)
    if k == 'repeated':
      return run_repeated(c, log)
    if k == 'nested':
      return run_nested(c, log)
    if k == 'nested_reject':
      return run_nested_reject(c, log)
    if k == 'nested_grad':
      return run_nested_grad(c, log)
    if k == 'accum':
      return run_accum(c, log)
    if k == 'dfi':
      return run_dfi(c, log, False)
    if k == 'dfi_steady':
      return run_dfi(c, log, True)
  except Exception as e:  # a combinator that crashes on a legal split
    import traceback
    tb = traceback.format_exc()
    log.emit('exception', exc=type(e).__name__)
    return [_viol('K-OUTCOME', f'{type(e).__name__}: {str(e)[:300]}', case=c,
                  traceback=tb[-1500:])]
  raise ValueError(k)


# ----------------------------------------------------------------------------
# shrinking
# ----------------------------------------------------------------------------

def case_candidates(c):
  """Simpler variants of one case, most aggressive first."""
  def variant(**kw):
    d = copy.deepcopy(c)
    d.update(kw)
    return d
  k = c['kind']
  if k == 'traj':
    if c['outer_scan'] != 'lax':
      yield variant(outer_scan='lax')
    if c['inner_scan'] != 'lax':
      yield variant(inner_scan='lax')
    if c['post'] != 'none':
      yield variant(post='none')
    if c['nfilters'] > 0:
      yield variant(nfilters=c['nfilters'] - 1, fcoef=c['fcoef'][:-1])
    if c['shape'] != 'flat':
      yield variant(shape='flat')
    for key in ('outer', 'inner'):
      if c[key] > 1 and c[key + '_scan'] in ('lax', 'py'):
        yield variant(**{key: c[key] - 1})
    for key in ('outer', 'inner'):
      fl = c[key + '_scan']
      if isinstance(fl, list):
        if fl[2]:
          yield variant(**{key + '_scan': ['nested', fl[1], False, fl[3]]})
        if fl[3] != 'lax':
          yield variant(**{key + '_scan': ['nested', fl[1], fl[2], 'lax']})
        for alt in factorisations(c[key], len(fl[1]) - 1 or 1):
          if len(alt) < len(fl[1]):
            yield variant(**{key + '_scan': ['nested', alt, fl[2], fl[3]]})
  elif k == 'repeated':
    if c['scan'] != 'lax':
      yield variant(scan='lax')
    if c['steps'] > 1 and c['scan'] in ('lax', 'py'):
      yield variant(steps=c['steps'] - 1)
    if c['shape'] != 'flat':
      yield variant(shape='flat')
  elif k in ('nested', 'nested_grad'):
    f = c['factors']
    for i in range(len(f)):
      if len(f) > 1:
        yield variant(factors=f[:i] + f[i + 1:])
    for i in range(len(f)):
      if f[i] > 1:
        yield variant(factors=f[:i] + [f[i] - 1] + f[i + 1:])
    if c.get('ckpt'):
      yield variant(ckpt=False)
    if c.get('base') != 'lax':
      yield variant(base='lax')
    if c.get('dim', 1) > 1:
      yield variant(dim=1)
    if c.get('xs') not in ('array', None) and k == 'nested':
      yield variant(xs='array')
  elif k == 'accum':
    if c['n'] > 1:
      yield variant(n=c['n'] - 1)
    if c['scan'] != 'lax':
      yield variant(scan='lax')
    if c['shape'] != 'flat':
      yield variant(shape='flat')
  elif k in ('dfi', 'dfi_steady'):
    if c['N'] > 1:
      yield variant(N=c['N'] - 1)
    if c['nfilters'] > 0:
      yield variant(nfilters=c['nfilters'] - 1)
    if c['dim'] > 1:
      yield variant(dim=1)
    if c['solver'] != 'backward_forward_euler':
      yield variant(solver='backward_forward_euler')
  elif k == 'swf':
    if c['nfilters'] > 1:
      yield variant(nfilters=c['nfilters'] - 1, fcoef=c['fcoef'][:-1])
    if c['shape'] != 'flat':
      yield variant(shape='flat')
  if c.get('mode') == 'jit' and k not in ('nested_grad',):
    d = variant(mode='eager')
    ok = True
    # eager mode cannot run zero-length scans or jax.checkpoint recording
    if k == 'traj' and (d['outer'] < 1 or d['inner'] < 1):
      ok = False
    if k == 'repeated' and d['steps'] < 1:
      ok = False
    if ok:
      def strip(fl):
        return ['nested', fl[1], False, fl[3]] if isinstance(fl, list) else fl
      for key in ('outer_scan', 'inner_scan', 'scan'):
        if key in d:
          d[key] = strip(d[key])
      if 'ckpt' in d:
        d['ckpt'] = False
      yield d


def minimise(case, oracle):
  def still_fails(cand):
    log = kernel.EventLog()
    return any(v['oracle'] == oracle for v in run_case(cand, log))
  return kernel.greedy_shrink(case, case_candidates, still_fails,
                              max_evals=80, max_seconds=90)


# ----------------------------------------------------------------------------
# entry points
# ----------------------------------------------------------------------------

def execute(cases):
  log = kernel.EventLog()
  all_v = []
  for i, c in enumerate(cases):
    vs = run_case(c, log)
    for v in vs:
      v['op_index'] = i
    all_v.extend(vs)
  return log, all_v


def case_sig(c) -> str:
  d = {k: v for k, v in c.items() if k not in ('data_seed', 'coef', 'fcoef')}
  return kernel.sha(d)[:12]


def run_one(seed, tier, opts, prop):
  rng = kernel.sub_rng(seed, 'K')
  n_cases = int(opts.get('cases', 12))
  cases = [gen_case(rng) for _ in range(n_cases)]
  log, viols = execute(cases)
  out_v = []
  seen = set()
  for v in viols:
    if v['oracle'] in seen:
      continue
    seen.add(v['oracle'])
    case = cases[v['op_index']]
    mini, evals = (minimise(case, v['oracle'])
                   if len(out_v) < (1 if kernel.violation_flag_set() else MAX_MINIMISED_PER_RUN)
                   else (case, 0))
    mlog, mv = execute([mini])
    mv = [x for x in mv if x['oracle'] == v['oracle']] or [v]
    rep = {'version': 1, 'property': PROP, 'engine': 'K', 'run_seed': seed,
           'x64': True, 'ops': [mini], 'violation': {
               'property': PROP, 'oracle': v['oracle'], 'message': mv[0]['message']},
           'digest': mlog.digest(),
           'minimised_from': {'ops': len(cases), 'original_case': case,
                              'shrink_evaluations': evals}}
    path = kernel.write_replay(rep, f"{seed}-{v['oracle']}")
    vv = dict(mv[0])
    vv['replay'] = path
    vv['sig'] = {'kind': mini['kind'], 'oracle': v['oracle']}
    vv.pop('traceback', None)
    out_v.append(vv)
  kinds = {}
  for c in cases:
    key = f"{c['kind']}/{c['mode']}"
    kinds[key] = kinds.get(key, 0) + 1
  probes = {
      'inner_eq_1_shortcut': sum(1 for c in cases if c['kind'] == 'traj' and c['inner'] == 1),
      'steps_eq_1_shortcut': sum(1 for c in cases if c['kind'] == 'repeated' and c['steps'] == 1),
      'zero_length': sum(1 for c in cases if (c['kind'] == 'traj' and 0 in (c['outer'], c['inner']))
                         or (c['kind'] == 'repeated' and c['steps'] == 0)),
      'nesting_depth_3': sum(1 for c in cases
                             if any(isinstance(c.get(k), list) and len(c[k][1]) == 3
                                    for k in ('outer_scan', 'inner_scan', 'scan'))
                             or (c['kind'] in ('nested', 'nested_grad') and len(c['factors']) == 3)),
      'jax_checkpoint_used': sum(1 for c in cases
                                 if c.get('ckpt') or any(isinstance(c.get(k), list) and c[k][2]
                                                         for k in ('outer_scan', 'inner_scan', 'scan'))),
      'start_with_input': sum(1 for c in cases if c.get('start_with_input')),
      'recorded_histories': sum(1 for c in cases if c['mode'] == 'eager'
                                and c['kind'] in ('traj', 'swf', 'repeated', 'nested')),
  }
  return {
      'digest': log.digest(),
      'sigs': sorted({case_sig(c) for c in cases}),
      'nontrivial': True,
      'cover': {'cases': len(cases), 'case_kinds': kinds, 'probes': probes,
                'callback_events': sum(v for k, v in log.counts.items())},
      'violations': out_v,
      'sample': cases[:2],
  }


def replay(rep, opts):
  log, viols = execute(rep['ops'])
  for v in viols:
    v.pop('traceback', None)
  return {'digest': log.digest(), 'violations': viols}
