"""Regenerates MANIFEST.json (kept valid at all times). Run: /venv/bin/python tools_manifest.py"""
import json, os, sys
sys.path.insert(0, os.path.dirname(os.path.abspath(__file__)))
from dsim import plans

NA = {
 'C01': 'analysis/synthesis inverse and discrete orthonormality are algebraic facts about fixed matrices built from the grid; one caller, no state, schedule, clock or fault to simulate (DESIGN 5).',
 'C02': 'exactness of spectral derivatives is a pure function of (field, grid); vector-calculus identities relate such evaluations; nothing for a scheduler or fault injector to own.',
 'C03': 'solve(x - eta*L x) = x is linear algebra on one input; the "every strategy agrees" clause is only incidentally exercised by knob randomisation in the claimed engines.',
 'C04': 'invariance under the reference-temperature split relates two pure evaluations of the same state; no history, clock or party.',
 'C05': 'agreement with the continuous equations / exact balance of analytic states are pointwise numerical identities of one tendency evaluation.',
 'C06': 'order conditions and amplification factors are properties of one application of a fixed tableau to (F, G, u, dt); coefficient-length validation is input validation.',
 'C08': 'JVP/VJP/finite-difference agreement is calculus on a pure function; the one recomputation-schedule aspect (checkpointed scan gradients) is decided under C14.',
 'C09': 'equivalence of two implementations under a fixed re-indexing is program equivalence on all inputs (translation validation); switching implementation is not a fault.',
 'C10': 'rotation/reflection equivariance is a metamorphic relation between two deterministic executions; the multi-step case is the one-step relation composed.',
 'C12': 'unit-scale independence is a relation between two deterministic executions of a pure function of (state, scale).',
 'C13': 'identities among cumulative sums, differences and advection on a column are algebra on one input; the sharded cumulative sum is covered under C07.',
 'C15': 'filter factors, monotonicity, semigroup consistency and Robert-Asselin identities are algebra on (pytree, parameters); the clock-leaf clause is monitored under C11.',
 'C16': 'non-negativity, row sums and conservation of regridding weights are properties of matrices computed from two coordinate vectors; the only concurrent caller (dask regrid_vertical) is anchored by no property.',
 'C17': 'interpolation exactness and extrapolation rules are pure functions of (x, xp, fp); the TPU/CPU path switch is a configuration, not a schedule.',
 'C18': 'unit and calendar conversions are pure arithmetic; the library never reads a real clock that could skew or jump.',
 'C20': 'radiation bounds/periodicity and Held-Suarez drag are pure functions of (time, position, state).',
}

TEXT = {
 'C14': ('Seeded search over (outer, inner, start_with_input) splits, nesting factorisations, scan flavours, filter stacks, pytrees and weight vectors; every case runs the real combinator with recording callbacks and is compared with a plain python loop (invocation history exact under disable_jit, values exact in int32, gradients/sums to 1e-11). Sampling, not proof: a clean batch is evidence over the stated space (lengths <= 7, <= 3 nesting levels).',
         'DESIGN 3.4, 4/C14'),
 'C07': ('Seeded search over (z,x,y) mesh factorisations, padded layouts, knobs and workloads; sharded execution (real XLA virtual-device mesh, and a deterministic SPMD simulator that owns device scheduling and message delivery and injects delay/reorder/stall/duplicate faults) must refine the unsharded execution after removing padding, be finite incl. padding, schedule independent, and reject only documented configurations.',
         'DESIGN 3.1, 3.2, 4/C07'),
 'C11': ('Seeded simulated model runs (equation class x integrator x filter stack x grid x levels) with operational events (checkpoint, crash/restart from durable bytes, re-layout to padded modal layouts, recompile, reconfigure, filter-only and implicit-solve-only operations; user-supplied Butcher tableaux; histories up to 160 steps in the thorough tier); structural invariants (exact zeros of clipped/masked/padding entries, (0,0) means, uniform tracer, clock = n*dt, clock untouched by filters/solve) are monitored after every operation in both worlds.',
         'DESIGN 3.3, 4/C11'),
 'C19': ('Seeded simulated model runs with a durable/volatile split: CHECKPOINT through data_to_xarray (+ netCDF bytes on fsspec memory://), CRASH_RESTART that rebuilds coordinate system and state from durable bytes only, up/down-sampling restarts and pytree codec compositions; restored state must be bit-identical (float64 and a float32 leg), dimension names and coordinate labels as documented / supplied, discretisation reproduced for sigma / layer / pressure verticals, codec compositions the identity, and the continued run must stay on the never-restarted reference world.',
         'DESIGN 3.3, 4/C19'),
}
NOTE = {
 'C14': 'Trusts jax (scan/checkpoint/grad) and the python-loop reference; callbacks are test doubles; real-model ADVANCE legs trust the reference world (one jitted step at a time).',
 'C07': 'Trusts XLA CPU numerics within 1e-9 relative (measured gap 2e-16) and, for engine X, XLA thread scheduling (verified bit-stable per run); engine S stubs collectives/transport and unrolls fori_loop.',
 'C11': 'Trusts the monitors\' tolerances (n*1e-12 / n*1e-11, 4-5 orders above measured drift); crash is an in-process drop of all volatile objects + jax.clear_caches(), disk is fsspec memory://.',
 'C19': 'Trusts xarray/scipy-netCDF/fsspec-memory as the storage stack; crash is in-process; torn/lost writes not injected (no atomicity property is stated).',
}
TECH = {
 'C14': 'deterministic simulation: seeded recorded-callback histories of the real combinators vs sequential reference loop, with shrinking and replay',
 'C07': 'deterministic simulation with fault injection: seeded SPMD simulator (devices as nodes, collectives as network; delay/reorder/stall/duplicate) + seeded real XLA virtual-device mesh, refinement against unsharded execution',
 'C11': 'deterministic simulation with fault injection: seeded model-run simulator (checkpoint, crash/restart, reshard, recompile, re-split events) with invariant monitors after every event',
 'C19': 'deterministic simulation with fault injection: seeded model-run simulator with durable/volatile state, crash/restart from durable bytes, refinement against a never-restarted reference world',
}

def main():
  claimed = [p for p in ['C07', 'C11', 'C14', 'C19'] if p in plans.PLANS]
  checks = []
  for p in claimed:
    checks.append({
      'property_id': p,
      'quick_cmd': f'./check {p} --tier quick',
      'thorough_cmd': f'./check {p} --tier thorough',
      'evidence_file': f'/verif/evidence/{p}.json',
      'replay_cmd_template': f'./check {p} --replay {{path}}',
      'engine': '+'.join(sorted({l['engine'] for l in plans.PLANS[p]['quick']})),
      'level_claimed': {'category': 'exploration', 'text': TEXT[p][0], 'design_ref': TEXT[p][1]},
      'level_note': NOTE[p],
      'technique': TECH[p],
    })
  na = [{'property_id': k, 'reason': v} for k, v in sorted(NA.items())]
  for p in ['C07', 'C11', 'C14', 'C19']:
    if p not in claimed:
      na.append({'property_id': p, 'reason': 'claimed by design (DESIGN 4) but its engine is not built yet in this commit; not yet decided'})
  na.sort(key=lambda d: d['property_id'])
  m = {
    'version': 1,
    'setup_cmd': '/venv/bin/python /verif/dsim/setup_check.py',
    'hooks': {
      'guard': 'DINOSAUR_VERIF',
      'enable': 'no source hooks exist: every seam used (module-level shard_map/shmap/lax names, spmd_mesh arguments, fsspec protocol strings, scan/checkpoint function arguments, jax.clear_caches) is already in the code; checks import /repo\'s working tree directly (editable install)',
      'baseline_off_cmd': 'cd /repo && /venv/bin/python -m pytest -ra -q -p no:cacheprovider --timeout=900 --continue-on-collection-errors',
      'source_commits': [],
      'add_only': True,
    },
    'engines': [
      {'name': 'K', 'path': '/verif/dsim/comb.py', 'serves_properties': ['C14'], 'kind_free_text': 'callback-history harness: real combinators driven with recording step/filter/post-process callbacks, compared with a python loop'},
      {'name': 'X', 'path': '/verif/dsim/xmesh.py', 'serves_properties': ['C07', 'C11', 'C19'], 'kind_free_text': 'real XLA host-platform virtual-device mesh (8 devices/process), seeded workloads, refinement vs unsharded'},
      {'name': 'S', 'path': '/verif/dsim/spmd.py', 'serves_properties': ['C07'], 'kind_free_text': 'deterministic SPMD simulator: shard_map bodies traced to per-device jaxprs and interpreted as generators; seeded scheduler decides device steps and message deliveries; delay/reorder/stall/duplicate faults'},
      {'name': 'R', 'path': '/verif/dsim/run.py', 'serves_properties': ['C11', 'C14', 'C19', 'C07'], 'kind_free_text': 'model-run simulator: real equations/integrators/filters, seeded operational events (checkpoint, crash/restart, reshard, recompile, re-split), reference world = plain loop'},
    ],
    'checks': checks,
    'not_applicable': na,
    'notes': 'All checks are seeded (VERIF_SEED) deterministic simulations; exit 2 + HARNESS-ERROR is a harness failure (never a pass). Replay files are written to /verif/replays/ on violation only. See DESIGN.md.',
  }
  with open(os.path.join(os.path.dirname(os.path.abspath(__file__)), 'MANIFEST.json'), 'w') as f:
    json.dump(m, f, indent=1)
    f.write('\n')

if __name__ == '__main__':
  main()
